package main

import (
	"bufio"
	"bytes"
	"encoding/json"
	"fmt"
	"io"
	"net"
	"os"
	"os/exec"
	"path/filepath"
	"sort"
	"strconv"
	"strings"
	"sync"
	"sync/atomic"
	"time"
)

// Engine "config" (C09, C10, C11): the real server binary logic — RunOutlineServer / loadConfig /
// runConfig / Stop in cmd/outline-ss-server, through the verif-tagged line driver
// (cmd/outline-ss-server/verif_driver_test.go built with `go test -c -tags verif`) — is run as a
// child process inside the private network namespace.  The harness writes configuration files
// (both formats, several services, duplicated keys, every failure stage), sends start / load /
// stop, and then observes from outside, as a client would:
//   - which (listener, client key) pairs authenticate and to which id they are attributed
//     (real TCP and UDP Shadowsocks clients built with the spec-level crypto of speccrypto.go, the
//     attribution read from the ServiceMetrics calls the driver records),
//   - which addresses are bound (/proc/net/{tcp,udp}{,6} of the namespace),
//   - clients hammering a retained address while the reload runs (refused dials, unauthenticated
//     or duplicated handling, lost datagrams),
//   - relayed connections opened before a reload (idle, mid-transfer, half-closed) run to completion,
//   - goroutines left after Stop.
//
// Each observation is one op line answered by the Lean model (Model/Config.lean); oracles are
// computed independently of the model from the last configuration that was expected to load.
func init() { engines["config"] = configEngine }

type cfgKey struct {
	ID     string `json:"id"`
	Cipher string `json:"cipher"`
	Secret string `json:"secret"`
}
type cfgLegacyKey struct {
	cfgKey
	Port int `json:"port"`
}
type cfgListener struct {
	Type    string `json:"type"`
	Address string `json:"address"`
	ipOK    bool   // host is an IP literal and the type is supported (what Validate demands)
}
type cfgSvc struct {
	Listeners []cfgListener `json:"listeners"`
	Keys      []cfgKey      `json:"keys"`
}
type cfgFile struct {
	Services []cfgSvc       `json:"services,omitempty"`
	Keys     []cfgLegacyKey `json:"keys,omitempty"`
}

func (l cfgListener) lkey() string { return l.Type + "/" + l.Address }

func (c *cfgFile) clone() *cfgFile {
	b, _ := json.Marshal(c)
	var d cfgFile
	json.Unmarshal(b, &d)
	for i := range d.Services {
		for j := range d.Services[i].Listeners {
			d.Services[i].Listeners[j].ipOK = c.Services[i].Listeners[j].ipOK
		}
	}
	return &d
}

// owned: listener key -> the key list that serves it, in configuration order
func (c *cfgFile) owned() (order []string, m map[string][]cfgKey) {
	m = map[string][]cfgKey{}
	ports := map[int]bool{}
	for _, k := range c.Keys {
		if !ports[k.Port] {
			ports[k.Port] = true
			for _, t := range []string{"tcp", "udp"} {
				order = append(order, fmt.Sprintf("%s/:%d", t, k.Port))
			}
		}
		for _, t := range []string{"tcp", "udp"} {
			lk := fmt.Sprintf("%s/:%d", t, k.Port)
			m[lk] = append(m[lk], k.cfgKey)
		}
	}
	for _, s := range c.Services {
		for _, l := range s.Listeners {
			order = append(order, l.lkey())
			m[l.lkey()] = s.Keys
		}
	}
	return
}

type clientKey struct {
	cipher int // canonical cipher index (position in specCiphers)
	secret string
}

func canonCipher(name string) int {
	c := specCipherByName(name)
	if c == nil {
		return -1
	}
	for i := range specCiphers {
		if &specCiphers[i] == c {
			return i
		}
	}
	return -1
}

// expectID: independent account of C09 — the first key of the owning list with that cipher and secret
func expectID(keys []cfgKey, ck clientKey) (string, bool) {
	for _, k := range keys {
		if canonCipher(k.Cipher) == ck.cipher && k.Secret == ck.secret {
			return k.ID, true
		}
	}
	return "", false
}

// ---- driver process ----

type cfgDriver struct {
	cmd    *exec.Cmd
	in     io.WriteCloser
	lines  chan string
	stderr *bytes.Buffer
	mu     sync.Mutex
}

func startDriver(bin string) (*cfgDriver, error) {
	cmd := exec.Command(bin, "-test.run", "^TestVerifDriver$", "-test.timeout", "0")
	cmd.Env = append(os.Environ(), "VERIF_DRIVER=1")
	in, err := cmd.StdinPipe()
	if err != nil {
		return nil, err
	}
	outp, err := cmd.StdoutPipe()
	if err != nil {
		return nil, err
	}
	d := &cfgDriver{cmd: cmd, in: in, lines: make(chan string, 64), stderr: &bytes.Buffer{}}
	cmd.Stderr = &capWriter{buf: d.stderr, max: 1 << 20}
	if err := cmd.Start(); err != nil {
		return nil, err
	}
	go func() {
		rd := bufio.NewReaderSize(outp, 1<<20)
		for {
			s, err := rd.ReadString('\n')
			if strings.HasPrefix(s, "VERIF> ") {
				d.lines <- strings.TrimRight(strings.TrimPrefix(s, "VERIF> "), "\r\n")
			}
			if err != nil {
				close(d.lines)
				return
			}
		}
	}()
	return d, nil
}

type capWriter struct {
	mu  sync.Mutex
	buf *bytes.Buffer
	max int
}

func (w *capWriter) Write(p []byte) (int, error) {
	w.mu.Lock()
	defer w.mu.Unlock()
	if w.buf.Len() < w.max {
		w.buf.Write(p)
	}
	return len(p), nil
}

var errDriverDead = fmt.Errorf("driver process ended")

func (d *cfgDriver) call(format string, a ...any) (string, error) {
	d.mu.Lock()
	defer d.mu.Unlock()
	if _, err := fmt.Fprintf(d.in, format+"\n", a...); err != nil {
		return "", errDriverDead
	}
	select {
	case s, ok := <-d.lines:
		if !ok {
			return "", errDriverDead
		}
		return s, nil
	case <-time.After(20 * time.Second):
		return "", fmt.Errorf("driver did not answer %q within 20 s", fmt.Sprintf(format, a...))
	}
}

func (d *cfgDriver) quit() {
	d.in.Close()
	done := make(chan struct{})
	go func() { d.cmd.Wait(); close(done) }()
	select {
	case <-done:
	case <-time.After(3 * time.Second):
		d.cmd.Process.Kill()
		<-done
	}
}

// ---- metric events of the driver ----

type drvEvent struct {
	kind   string
	local  string
	remote string // the client's address as the server saw it
	arg    string // id (auth, udpadd), status, found
	extra  string // drain result of a probe
}

func parseEvents(s string) []drvEvent {
	var evs []drvEvent
	if s == "" {
		return nil
	}
	for _, e := range strings.Split(s, ";") {
		f := strings.SplitN(e, " ", 2)
		ev := drvEvent{kind: f[0]}
		rest := ""
		if len(f) > 1 {
			rest = f[1]
		}
		switch ev.kind {
		case "tcpopen":
			p := strings.Fields(rest)
			if len(p) == 2 {
				ev.local, ev.remote = p[0], p[1]
			}
		case "tcpauth":
			p := strings.SplitN(rest, " ", 3)
			if len(p) == 3 {
				ev.local, ev.remote = p[0], p[1]
				ev.arg, _ = strconv.Unquote(p[2])
			}
		case "tcpclosed":
			p := strings.Fields(rest)
			if len(p) == 3 {
				ev.local, ev.remote, ev.arg = p[0], p[1], p[2]
			}
		case "tcpprobe":
			p := strings.SplitN(rest, " ", 4)
			if len(p) >= 3 {
				ev.local, ev.remote, ev.arg = p[0], p[1], p[2]
			}
			if len(p) == 4 {
				ev.extra, _ = strconv.Unquote(p[3])
			}
		case "udpadd":
			p := strings.SplitN(rest, " ", 2)
			if len(p) == 2 {
				ev.remote = p[0]
				ev.arg, _ = strconv.Unquote(p[1])
			}
		case "udpclient":
			p := strings.Fields(rest)
			if len(p) == 2 {
				ev.remote, ev.arg = p[0], p[1]
			}
		case "udpremove":
			ev.remote = strings.TrimSpace(rest)
		case "search":
			p := strings.Fields(rest)
			if len(p) == 2 {
				ev.local, ev.arg = p[0], p[1]
			}
		}
		evs = append(evs, ev)
	}
	return evs
}

// ---- targets ----

type cfgTargets struct {
	ip       string
	echoPort int         // echoes; on EOF writes "|tail" and closes
	holdPort int         // echoes; on EOF waits for release, then writes "|tail" and closes
	holding  atomic.Bool // while set, the hold target keeps its tail back
}

func (t *cfgTargets) start(out *Out) bool {
	serve := func(port int, hold bool) bool {
		ln, err := net.Listen("tcp", net.JoinHostPort(t.ip, itoa(port)))
		if err != nil {
			out.Note("config target listen: %v", err)
			return false
		}
		go func() {
			for {
				c, err := ln.Accept()
				if err != nil {
					return
				}
				go func() {
					defer c.Close()
					buf := make([]byte, 32<<10)
					for {
						n, err := c.Read(buf)
						if n > 0 {
							if _, werr := c.Write(buf[:n]); werr != nil {
								return
							}
						}
						if err != nil {
							break
						}
					}
					for dl := time.Now().Add(15 * time.Second); hold && t.holding.Load() && time.Now().Before(dl); {
						time.Sleep(time.Millisecond)
					}
					c.Write([]byte("|tail"))
				}()
			}
		}()
		return true
	}
	if !serve(t.echoPort, false) || !serve(t.holdPort, true) {
		return false
	}
	pc, err := net.ListenPacket("udp", net.JoinHostPort(t.ip, itoa(t.echoPort)))
	if err != nil {
		out.Note("config udp target: %v", err)
		return false
	}
	go func() {
		buf := make([]byte, 65536)
		for {
			n, a, err := pc.ReadFrom(buf)
			if err != nil {
				return
			}
			pc.WriteTo(buf[:n], a)
		}
	}()
	return true
}

func (t *cfgTargets) releaseHeld() { t.holding.Store(false) }

func socksAddrV4(ip string, port int) []byte {
	b := []byte{1}
	b = append(b, net.ParseIP(ip).To4()...)
	return append(b, byte(port>>8), byte(port))
}

// dialAddr: where a client reaches a configured listener address
func dialAddr(addr string) string {
	host, port, err := net.SplitHostPort(addr)
	if err != nil {
		return addr
	}
	switch host {
	case "", "0.0.0.0":
		host = "127.0.0.1"
	case "::":
		host = "::1"
	}
	return net.JoinHostPort(host, port)
}

// ---- the case ----

type cfgCase struct {
	r                *Rng
	out              *Out
	d                *cfgDriver
	tg               *cfgTargets
	dir              string
	seq              int
	cur              *cfgFile // last configuration expected to be serving (nil: none)
	lastPath, lastOp string
	held             []io.Closer   // foreign sockets occupying an address for the duration of one load
	failedAddrs      []cfgListener // addresses whose bind failed earlier: later configurations reuse them
	served           *servedHandshake // the latest handshake the server authenticated (for replays)
	retry, revert    *cfgFile      // after a bind that failed because of a foreign socket: the same file again, then back
	saltN            uint64
	retainedUDP      map[string]bool // udp listener keys bound by both the previous and the serving configuration (after a completed reload)
	dead             bool
}

var cfgSecrets = []string{"s1", "s2", "s3", "s4", "", "пароль", "a b"}
var cfgIDs = []string{"k1", "k2", "k3", "alice", "bob", "", "user 7", "ключ"}
var cfgBadCiphers = []string{"rot13", "", "aes-256-cfb", "chacha20", "AEAD_AES_512_GCM"}
var cfgGoodAddrs = []string{"127.0.0.1:9101", "127.0.0.1:9102", "127.0.0.1:9103", "127.0.0.1:9104", "[::1]:9105", "203.0.113.11:9106", "0.0.0.0:9107", "[::]:9108", "203.0.113.10:9109", "[2001:db8::10]:9110"}
var cfgUnassigned = []string{"192.0.2.77:9120", "[2001:db8::77]:9121"}
var cfgForeign = "127.0.0.1:9130"
var cfgNonIP = []string{"localhost:9140", "example.com:9141", "127.0.0.1", ":9142", "127.0.0.1:http:9143"}
var cfgLegacyPorts = []int{9201, 9202, 9203}
var cfgLegacyForeign = 9230

func (c *cfgCase) genKey() cfgKey {
	r := c.r
	ci := r.Intn(len(specCiphers))
	if r.Chance(55) {
		ci = 0
	}
	names := cipherAliases[specCiphers[ci].name]
	return cfgKey{ID: Pick(r, cfgIDs), Cipher: Pick(r, names), Secret: Pick(r, cfgSecrets)}
}

func (c *cfgCase) genFresh() *cfgFile {
	r := c.r
	f := &cfgFile{}
	addrs := append([]string{}, cfgGoodAddrs...)
	used := map[string]bool{}
	ns := r.Intn(4)
	if r.Chance(15) {
		ns = 0
	}
	for i := 0; i < ns; i++ {
		var s cfgSvc
		nl := r.Intn(4)
		for j := 0; j < nl; j++ {
			l := cfgListener{Type: Pick(r, []string{"tcp", "udp"}), Address: Pick(r, addrs), ipOK: true}
			if used[l.lkey()] {
				continue
			}
			used[l.lkey()] = true
			s.Listeners = append(s.Listeners, l)
		}
		nk := r.Intn(5)
		for j := 0; j < nk; j++ {
			k := c.genKey()
			if j > 0 && r.Chance(15) { // the same secret under ANOTHER cipher (also one with the same salt and tag sizes): a different key
				k = s.Keys[r.Intn(len(s.Keys))]
				k.ID = Pick(r, cfgIDs)
				if ci := canonCipher(k.Cipher); ci >= 0 {
					k.Cipher = Pick(r, cipherAliases[specCiphers[(ci+1+r.Intn(len(specCiphers)-1))%len(specCiphers)].name])
					if ci <= 1 && r.Chance(60) {
						k.Cipher = Pick(r, cipherAliases[specCiphers[1-ci].name]) // chacha20 <-> aes-256-gcm
					}
				}
			} else if j > 0 && r.Chance(20) { // same cipher and secret again: same spelling, another spelling, another id
				k = s.Keys[r.Intn(len(s.Keys))]
				if r.Bool() {
					k.ID = Pick(r, cfgIDs)
				}
				if r.Bool() {
					if ci := canonCipher(k.Cipher); ci >= 0 {
						k.Cipher = Pick(r, cipherAliases[specCiphers[ci].name])
					}
				}
			}
			s.Keys = append(s.Keys, k)
		}
		f.Services = append(f.Services, s)
	}
	if r.Chance(12) {
		// a long legacy list: many keys, ports interleaved, pairs of entries with the same cipher and
		// secret under different ids on the same port (the first listed id must win)
		nk := 13 + r.Intn(30)
		ports := cfgLegacyPorts[:2+r.Intn(2)]
		for j := 0; j < nk; j++ {
			k := cfgKey{ID: fmt.Sprintf("u%d", j), Cipher: Pick(r, cipherAliases[specCiphers[r.Intn(2)].name]), Secret: fmt.Sprintf("pw%d", r.Intn(nk))}
			p := Pick(r, ports)
			if j > 0 && r.Chance(35) {
				o := f.Keys[r.Intn(len(f.Keys))]
				k.Cipher, k.Secret, p = o.Cipher, o.Secret, o.Port
			}
			f.Keys = append(f.Keys, cfgLegacyKey{k, p})
		}
	} else if r.Chance(45) || ns == 0 {
		nk := 1 + r.Intn(4)
		for j := 0; j < nk; j++ {
			k := c.genKey()
			if j > 0 && r.Chance(20) {
				k = f.Keys[r.Intn(len(f.Keys))].cfgKey
				if r.Bool() {
					k.ID = Pick(r, cfgIDs)
				}
			}
			f.Keys = append(f.Keys, cfgLegacyKey{k, Pick(r, cfgLegacyPorts)})
		}
	}
	// a key shared between services
	if len(f.Services) >= 2 && r.Chance(35) && len(f.Services[0].Keys) > 0 {
		k := Pick(r, f.Services[0].Keys)
		if r.Bool() {
			k.ID = Pick(r, cfgIDs)
		}
		f.Services[1].Keys = append(f.Services[1].Keys, k)
	}
	return f
}

// genFrom: a successor of the serving configuration: listeners and keys retained, removed, added, moved
func (c *cfgCase) genFrom(old *cfgFile) *cfgFile {
	r := c.r
	f := old.clone()
	used := map[string]bool{}
	for _, s := range f.Services {
		for _, l := range s.Listeners {
			used[l.lkey()] = true
		}
	}
	nm := 1 + r.Intn(3)
	for m := 0; m < nm; m++ {
		switch r.Intn(8) {
		case 0: // drop a listener
			if len(f.Services) > 0 {
				s := &f.Services[r.Intn(len(f.Services))]
				if len(s.Listeners) > 0 {
					i := r.Intn(len(s.Listeners))
					delete(used, s.Listeners[i].lkey())
					s.Listeners = append(s.Listeners[:i], s.Listeners[i+1:]...)
				}
			}
		case 1: // add a listener
			if len(f.Services) > 0 {
				s := &f.Services[r.Intn(len(f.Services))]
				l := cfgListener{Type: Pick(r, []string{"tcp", "udp"}), Address: Pick(r, cfgGoodAddrs), ipOK: true}
				if len(c.failedAddrs) > 0 && r.Chance(60) {
					l = Pick(r, c.failedAddrs)
				}
				if !used[l.lkey()] {
					used[l.lkey()] = true
					s.Listeners = append(s.Listeners, l)
				}
			}
		case 2: // drop a key
			if len(f.Services) > 0 {
				s := &f.Services[r.Intn(len(f.Services))]
				if len(s.Keys) > 0 {
					i := r.Intn(len(s.Keys))
					s.Keys = append(s.Keys[:i], s.Keys[i+1:]...)
				}
			}
		case 3: // add a key
			if len(f.Services) > 0 {
				s := &f.Services[r.Intn(len(f.Services))]
				s.Keys = append(s.Keys, c.genKey())
			}
		case 4: // move a listener to another service
			if len(f.Services) >= 2 {
				a, b := r.Intn(len(f.Services)), r.Intn(len(f.Services))
				if a != b && len(f.Services[a].Listeners) > 0 {
					i := r.Intn(len(f.Services[a].Listeners))
					l := f.Services[a].Listeners[i]
					f.Services[a].Listeners = append(f.Services[a].Listeners[:i], f.Services[a].Listeners[i+1:]...)
					f.Services[b].Listeners = append(f.Services[b].Listeners, l)
				}
			}
		case 5: // legacy keys change
			if len(f.Keys) > 0 && r.Bool() {
				i := r.Intn(len(f.Keys))
				f.Keys = append(f.Keys[:i], f.Keys[i+1:]...)
			} else {
				f.Keys = append(f.Keys, cfgLegacyKey{c.genKey(), Pick(r, cfgLegacyPorts)})
			}
		case 6: // new service
			l := cfgListener{Type: Pick(r, []string{"tcp", "udp"}), Address: Pick(r, cfgGoodAddrs), ipOK: true}
			s := cfgSvc{Keys: []cfgKey{c.genKey()}}
			if !used[l.lkey()] {
				used[l.lkey()] = true
				s.Listeners = []cfgListener{l}
			}
			f.Services = append(f.Services, s)
		case 7: // reorder the services
			if len(f.Services) >= 2 {
				f.Services[0], f.Services[len(f.Services)-1] = f.Services[len(f.Services)-1], f.Services[0]
			}
		}
	}
	return f
}

type cfgFault struct {
	kind  string // none missing malformed badtype nonip dup cipher legacycipher bind foreign legacyforeign
	model string // fault=<...> field for the model
}

// planLen: acquisitions before service `si`, listener `li`
func planIndex(f *cfgFile, si, li int) int {
	ports := map[int]bool{}
	for _, k := range f.Keys {
		ports[k.Port] = true
	}
	n := 2 * len(ports)
	for i := 0; i < si; i++ {
		n += len(f.Services[i].Listeners)
	}
	return n + li
}

// injectFault mutates f so that loading fails at the chosen stage (or returns kind none)
func (c *cfgCase) injectFault(f *cfgFile) cfgFault {
	r := c.r
	if r.Chance(50) {
		return cfgFault{"none", "none"}
	}
	insert := func(l cfgListener) (int, int) {
		if len(f.Services) == 0 {
			f.Services = append(f.Services, cfgSvc{Keys: []cfgKey{c.genKey()}})
		}
		si := r.Intn(len(f.Services))
		s := &f.Services[si]
		li := r.Intn(len(s.Listeners) + 1)
		s.Listeners = append(s.Listeners[:li], append([]cfgListener{l}, s.Listeners[li:]...)...)
		return si, li
	}
	switch r.Intn(14) {
	case 0:
		return cfgFault{"missing", "read"}
	case 1:
		return cfgFault{"malformed", "read"}
	case 2:
		insert(cfgListener{Type: Pick(r, []string{"quic", "", "TCP", "unix"}), Address: "127.0.0.1:9150", ipOK: false})
		return cfgFault{"badtype", "none"}
	case 3:
		insert(cfgListener{Type: Pick(r, []string{"tcp", "udp"}), Address: Pick(r, cfgNonIP), ipOK: false})
		return cfgFault{"nonip", "none"}
	case 4:
		var all []cfgListener
		for _, s := range f.Services {
			all = append(all, s.Listeners...)
		}
		if len(all) == 0 {
			return cfgFault{"missing", "read"}
		}
		insert(Pick(r, all))
		return cfgFault{"dup", "none"}
	case 5, 6:
		if len(f.Services) == 0 {
			f.Services = append(f.Services, cfgSvc{})
		}
		s := &f.Services[r.Intn(len(f.Services))]
		k := c.genKey()
		k.Cipher = Pick(r, cfgBadCiphers)
		i := r.Intn(len(s.Keys) + 1)
		s.Keys = append(s.Keys[:i], append([]cfgKey{k}, s.Keys[i:]...)...)
		return cfgFault{"cipher", "none"}
	case 7:
		k := c.genKey()
		k.Cipher = Pick(r, cfgBadCiphers)
		f.Keys = append(f.Keys, cfgLegacyKey{k, Pick(r, cfgLegacyPorts)})
		return cfgFault{"legacycipher", "none"}
	case 8:
		si, li := insert(cfgListener{Type: Pick(r, []string{"tcp", "udp"}), Address: Pick(r, cfgUnassigned), ipOK: true})
		return cfgFault{"bind", fmt.Sprintf("bind:%d", planIndex(f, si, li))}
	case 9, 11, 12, 13:
		// an address another process holds for the moment: the bind fails now and may succeed later
		l := cfgListener{Type: Pick(r, []string{"tcp", "udp"}), Address: Pick(r, cfgGoodAddrs), ipOK: true}
		inUse := false
		if c.cur != nil {
			_, owned := c.cur.owned()
			_, inUse = owned[l.lkey()]
		}
		for _, s := range f.Services {
			for _, x := range s.Listeners {
				if x.lkey() == l.lkey() {
					inUse = true
				}
			}
		}
		if !inUse {
			var h io.Closer
			var err error
			if l.Type == "tcp" {
				h, err = net.Listen("tcp", l.Address)
			} else {
				h, err = net.ListenPacket("udp", l.Address)
			}
			if err == nil {
				c.held = append(c.held, h)
				c.failedAddrs = append(c.failedAddrs, l)
				si, li := insert(l)
				return cfgFault{"foreign-temporary", fmt.Sprintf("bind:%d", planIndex(f, si, li))}
			}
		}
		si, li := insert(cfgListener{Type: Pick(r, []string{"tcp", "udp"}), Address: cfgForeign, ipOK: true})
		return cfgFault{"foreign", fmt.Sprintf("bind:%d", planIndex(f, si, li))}
	default:
		first := true
		for _, k := range f.Keys {
			if k.Port == cfgLegacyForeign {
				first = false
			}
		}
		_ = first
		f.Keys = append(f.Keys, cfgLegacyKey{c.genKey(), cfgLegacyForeign})
		// the UDP half of the legacy port is occupied: its TCP half is acquired first, then released
		return cfgFault{"legacyforeign", "bind:1"}
	}
}

// a bad cipher earlier in the plan makes the load fail before the bind is tried; both fail, the model
// does not care which.  A config may also fail for a reason not injected (none in this generator).

func hexOr(s string) string { return hexs([]byte(s)) }

func (c *cfgCase) modelFields(f *cfgFile) string {
	var svcs []string
	for _, s := range f.Services {
		var ls, ks []string
		for _, l := range s.Listeners {
			t := "u"
			if l.Type == "tcp" {
				t = "t"
			}
			ok := "0"
			if l.ipOK {
				ok = "1"
			}
			ls = append(ls, fmt.Sprintf("%s:%s:%s", t, hexOr(l.Address), ok))
		}
		for _, k := range s.Keys {
			ks = append(ks, fmt.Sprintf("%s:%s:%s", hexOr(k.ID), hexOr(k.Cipher), hexOr(k.Secret)))
		}
		l, k := strings.Join(ls, ","), strings.Join(ks, ",")
		if l == "" {
			l = "-"
		}
		if k == "" {
			k = "-"
		}
		svcs = append(svcs, l+"@"+k)
	}
	var leg []string
	for _, k := range f.Keys {
		leg = append(leg, fmt.Sprintf("%s:%s:%s:%d", hexOr(k.ID), hexOr(k.Cipher), hexOr(k.Secret), k.Port))
	}
	sv, lg := strings.Join(svcs, "+"), strings.Join(leg, ",")
	if sv == "" {
		sv = "-"
	}
	if lg == "" {
		lg = "-"
	}
	return "svc=" + sv + " legacy=" + lg
}

func (c *cfgCase) writeFile(f *cfgFile, ft cfgFault) string {
	c.seq++
	p := filepath.Join(c.dir, fmt.Sprintf("cfg-%d.yaml", c.seq))
	switch ft.kind {
	case "missing":
		return filepath.Join(c.dir, "does-not-exist.yaml")
	case "malformed":
		os.WriteFile(p, []byte(Pick(c.r, []string{"services: [\n", "services: 5\n", "keys:\n  - id: [a, b\n", "\tservices: {}\n", "services:\n  - listeners: 7\n"})), 0o600)
		return p
	}
	b, _ := json.MarshalIndent(f, "", " ") // JSON is YAML
	os.WriteFile(p, b, 0o600)
	return p
}

func (c *cfgCase) freshSalt(n int) []byte {
	c.saltN++
	s := make([]byte, n)
	copy(s, fmt.Sprintf("%016x", c.saltN*0x9E3779B97F4A7C15+c.r.U64()))
	for i := 16; i < n; i++ {
		s[i] = byte(c.r.U64())
	}
	return s
}

// Every client socket gets a local port of its own from a private range below the kernel's ephemeral
// range: the metric events identify a client by its address, and an ephemeral port that the kernel
// hands out twice within one observation window would merge two clients into one.
var cfgLocalPort uint32 = 10000

func nextLocalPort() int {
	p := atomic.AddUint32(&cfgLocalPort, 1)
	return 10000 + int(p%22000)
}

func dialFrom(network, addr string) (net.Conn, error) {
	var err error
	for try := 0; try < 20; try++ {
		var d net.Dialer
		d.Timeout = 2 * time.Second
		if network == "tcp" {
			d.LocalAddr = &net.TCPAddr{Port: nextLocalPort()}
		} else {
			d.LocalAddr = &net.UDPAddr{Port: nextLocalPort()}
		}
		var c net.Conn
		c, err = d.Dial(network, addr)
		if err == nil {
			return c, nil
		}
		if !strings.Contains(err.Error(), "address already in use") {
			return nil, err
		}
	}
	return nil, err
}

type tcpProbeRes struct {
	wire    []byte
	refused bool
	local   string
	echo    []byte
	err     error
}

// probeTCP: one Shadowsocks TCP client: handshake + address header + token, FIN, read to EOF
func (c *cfgCase) probeTCP(addr string, key *specKey, salt []byte, token string, port int) tcpProbeRes {
	conn, err := dialFrom("tcp", dialAddr(addr))
	if err != nil {
		return tcpProbeRes{refused: true, err: err}
	}
	defer conn.Close()
	res := tcpProbeRes{local: conn.LocalAddr().String()}
	w := newSpecStreamWriter(key, salt)
	wire := append(append([]byte{}, salt...), w.chunk(append(socksAddrV4(c.tg.ip, port), []byte(token)...))...)
	res.wire = wire
	conn.SetDeadline(time.Now().Add(5 * time.Second))
	if _, err := conn.Write(wire); err != nil {
		res.err = err
		return res
	}
	conn.(*net.TCPConn).CloseWrite()
	raw, err := io.ReadAll(conn)
	if err != nil {
		res.err = err
	}
	rd := &specStreamReader{k: key}
	rd.feed(raw)
	res.echo, _ = rd.drain()
	return res
}

func (c *cfgCase) events() []drvEvent {
	s, err := c.d.call("events")
	if err != nil {
		c.dead = true
		return nil
	}
	return parseEvents(s)
}

// authTCP: which id the server attributes a fresh client holding `key` to on `addr`
func (c *cfgCase) authTCP(addr string, key *specKey) (string, bool, bool) {
	token := fmt.Sprintf("probe-%d", c.saltN)
	c.events() // drop what earlier traffic left behind
	res := c.probeTCP(addr, key, c.freshSalt(key.c.saltSize), token, c.tg.echoPort)
	if res.refused {
		return "", false, true
	}
	var evs []drvEvent
	deadline := time.Now().Add(3 * time.Second)
	closed := false
	for !closed && time.Now().Before(deadline) && !c.dead {
		evs = append(evs, c.events()...)
		for _, e := range evs {
			if e.kind == "tcpclosed" && e.remote == res.local {
				closed = true
			}
		}
		if !closed {
			time.Sleep(2 * time.Millisecond)
		}
	}
	id, authed, opens := "", false, 0
	for _, e := range evs {
		if e.remote != res.local {
			continue
		}
		switch e.kind {
		case "tcpopen":
			opens++
		case "tcpauth":
			id, authed = e.arg, true
		}
	}
	if !closed {
		c.out.Oracle("C15", "connection %s to %s was never reported closed", res.local, addr)
	}
	if opens != 1 {
		c.out.Oracle("C12", "connection %s to %s was reported opened %d times", res.local, addr, opens)
	}
	if authed {
		c.served = &servedHandshake{wire: res.wire, ck: clientKey{canonCipher(key.c.name), key.secret}, addr: addr, id: id}
	}
	want := token + "|tail"
	if authed != (string(res.echo) == want) {
		c.out.Oracle("C09", "listener %s: server reports authenticated=%v but the client received %q (expected %q iff authenticated)", addr, authed, res.echo, want)
	}
	return id, authed, false
}

type servedHandshake struct {
	wire []byte
	ck   clientKey
	addr string
	id   string // the access key (its ID) the handshake was attributed to
}

// replayServed: the exact bytes of a handshake the server has already served, presented again on a
// listener whose service lists the key (another service of the configuration, or the configuration
// loaded since): the one replay history of the process must refuse it
func (c *cfgCase) replayServed(why string) {
	if c.served == nil || c.cur == nil || c.dead {
		return
	}
	order, owned := c.cur.owned()
	var cands []string
	for _, lk := range order {
		if !strings.HasPrefix(lk, "tcp/") {
			continue
		}
		// the history remembers (access key ID, salt): the same secret configured under ANOTHER ID is
		// another access key, and a replay there is a first presentation
		if id, ok := expectID(owned[lk], c.served.ck); ok && id == c.served.id {
			cands = append(cands, lk[4:])
		}
	}
	if len(cands) == 0 {
		return
	}
	addr := Pick(c.r, cands)
	c.events()
	conn, err := dialFrom("tcp", dialAddr(addr))
	if err != nil {
		return
	}
	defer conn.Close()
	local := conn.LocalAddr().String()
	conn.SetDeadline(time.Now().Add(5 * time.Second))
	conn.Write(c.served.wire)
	conn.(*net.TCPConn).CloseWrite()
	io.Copy(io.Discard, conn)
	authed, closed := false, false
	for dl := time.Now().Add(3 * time.Second); !closed && time.Now().Before(dl) && !c.dead; time.Sleep(2 * time.Millisecond) {
		for _, e := range c.events() {
			if e.remote != local {
				continue
			}
			if e.kind == "tcpauth" {
				authed = true
			}
			if e.kind == "tcpclosed" {
				closed = true
			}
		}
	}
	res := "refused"
	if authed {
		res = "served"
		c.out.Oracle("C07", "a handshake the server had already served on %s was served again when replayed on %s (%s): the replay history is not shared across listeners, services and reloads", c.served.addr, addr, why)
	}
	c.out.Op("cfg replay", res+" # "+why+" "+c.served.addr+" -> "+addr)
	c.out.Stat("replay."+why, 1)
}

// authUDP: same over UDP
func (c *cfgCase) authUDP(addr string, key *specKey) (string, bool) {
	conn, err := dialFrom("udp", dialAddr(addr))
	if err != nil {
		return "", false
	}
	defer conn.Close()
	local := conn.LocalAddr().String()
	token := fmt.Sprintf("uprobe-%d", c.saltN)
	c.events() // drop what earlier traffic left behind
	pkt := key.packUDP(c.freshSalt(key.c.saltSize), append(socksAddrV4(c.tg.ip, c.tg.echoPort), []byte(token)...))
	conn.Write(pkt)
	var evs []drvEvent
	deadline := time.Now().Add(2 * time.Second)
	searched := false
	found := false
	for !searched && time.Now().Before(deadline) && !c.dead {
		evs = append(evs, c.events()...)
		for _, e := range evs {
			if e.kind == "search" && e.local == "udp" {
				searched, found = true, e.arg == "true"
			}
		}
		if !searched {
			time.Sleep(2 * time.Millisecond)
		}
	}
	id, authed := "", false
	if found {
		// the association is reported right after the search
		dl := time.Now().Add(time.Second)
		for {
			for _, e := range evs {
				if e.kind == "udpadd" && e.remote == local {
					id, authed = e.arg, true
				}
			}
			if authed || time.Now().After(dl) || c.dead {
				break
			}
			time.Sleep(2 * time.Millisecond)
			evs = append(evs, c.events()...)
		}
	}
	got := false
	if authed {
		conn.SetReadDeadline(time.Now().Add(time.Second))
		buf := make([]byte, 2048)
		n, err := conn.Read(buf)
		if err == nil {
			if plain, err := key.openUDP(buf[:n]); err == nil && bytes.HasSuffix(plain, []byte(token)) {
				got = true
			}
		}
		if !got {
			c.out.Oracle("C09", "udp listener %s: attributed to %q but no echo came back", addr, id)
			if c.retainedUDP["udp/"+addr] {
				c.out.Oracle("C11", "after a completed reload a datagram to the retained address udp/%s was attributed to %q but got no answer: it was handled by a generation that is no longer serving", addr, id)
			}
		}
	}
	if !searched {
		c.out.Note("udp probe to %s: no key search reported", addr)
	}
	return id, authed
}

// boundKeys: the configured addresses that are bound in this namespace, from /proc/net
func boundKeys(universe []string) []string {
	listening := map[string]bool{} // "tcp/<port>" "udp/<port>"
	scan := func(file, proto string) {
		b, err := os.ReadFile(file)
		if err != nil {
			return
		}
		for i, ln := range strings.Split(string(b), "\n") {
			f := strings.Fields(ln)
			if i == 0 || len(f) < 4 {
				continue
			}
			if proto == "tcp" && f[3] != "0A" {
				continue
			}
			if proto == "udp" && f[2][strings.LastIndexByte(f[2], ':')+1:] != "0000" {
				continue // a connected client socket
			}
			p, err := strconv.ParseUint(f[1][strings.LastIndexByte(f[1], ':')+1:], 16, 16)
			if err == nil {
				listening[fmt.Sprintf("%s/%d", proto, p)] = true
			}
		}
	}
	scan("/proc/net/tcp", "tcp")
	scan("/proc/net/tcp6", "tcp")
	scan("/proc/net/udp", "udp")
	scan("/proc/net/udp6", "udp")
	var res []string
	for _, lk := range universe {
		i := strings.IndexByte(lk, '/')
		_, port, err := net.SplitHostPort(lk[i+1:])
		if err != nil {
			continue
		}
		if listening[lk[:i]+"/"+port] {
			res = append(res, hexOr(lk))
		}
	}
	sort.Strings(res)
	return res
}

func cfgUniverse() []string {
	var u []string
	for _, a := range append(append([]string{}, cfgGoodAddrs...), cfgUnassigned...) {
		u = append(u, "tcp/"+a, "udp/"+a)
	}
	for _, p := range cfgLegacyPorts {
		u = append(u, fmt.Sprintf("tcp/:%d", p), fmt.Sprintf("udp/:%d", p))
	}
	// the foreign-held addresses are occupied by the harness itself: only the half it does not hold counts
	u = append(u, fmt.Sprintf("tcp/:%d", cfgLegacyForeign))
	return u
}

func (c *cfgCase) opBound() {
	b := boundKeys(cfgUniverse())
	s := strings.Join(b, ",")
	if s == "" {
		s = "-"
	}
	c.out.Op("cfg bound", s)
	// independent account: exactly the listeners of the configuration expected to serve
	want := map[string]bool{}
	if c.cur != nil {
		order, _ := c.cur.owned()
		for _, lk := range order {
			want[hexOr(lk)] = true
		}
	}
	got := map[string]bool{}
	for _, x := range b {
		got[x] = true
		if !want[x] {
			lk, _ := hexDecode(x)
			c.out.Oracle("C10", "%s is bound but is not a listener of the configuration that should be serving", lk)
		}
	}
	for x := range want {
		if !got[x] {
			lk, _ := hexDecode(x)
			c.out.Oracle("C10", "%s belongs to the serving configuration but is not bound", lk)
		}
	}
}

func hexDecode(s string) (string, error) {
	b := make([]byte, len(s)/2)
	for i := range b {
		v, err := strconv.ParseUint(s[2*i:2*i+2], 16, 8)
		if err != nil {
			return "", err
		}
		b[i] = byte(v)
	}
	return string(b), nil
}

// probeAll: a sample of (listener, client key) pairs of the serving configuration × keys seen so far
func (c *cfgCase) probeAll(pool []clientKey) {
	if c.cur == nil || c.dead {
		return
	}
	r := c.r
	order, owned := c.cur.owned()
	lks := append([]string{}, order...)
	for len(lks) > 5 {
		i := r.Intn(len(lks))
		lks = append(lks[:i], lks[i+1:]...)
	}
	for _, lk := range lks {
		keys := append([]clientKey{}, pool...)
		// always the listener's own keys first, then a sample of the others
		var mine []clientKey
		for _, k := range owned[lk] {
			mine = append(mine, clientKey{canonCipher(k.Cipher), k.Secret})
		}
		for len(keys) > 4 {
			i := r.Intn(len(keys))
			keys = append(keys[:i], keys[i+1:]...)
		}
		// keys listed more than once are the interesting ones: keep them, thin out the rest
		cnt := map[clientKey]int{}
		for _, ck := range mine {
			cnt[ck]++
		}
		sort.SliceStable(mine, func(a, b int) bool { return cnt[mine[a]] > 1 && cnt[mine[b]] <= 1 })
		ndup := 0
		for _, ck := range mine {
			if cnt[ck] > 1 {
				ndup++
			}
		}
		for len(mine) > 4 {
			lo := 0
			if ndup >= 2 && len(mine) > ndup {
				lo = min(ndup, 3) // drop singles first, keep up to 3 duplicated
			}
			i := lo + r.Intn(len(mine)-lo)
			mine = append(mine[:i], mine[i+1:]...)
		}
		seen := map[clientKey]bool{}
		for _, ck := range append(mine, keys...) {
			if seen[ck] || ck.cipher < 0 {
				continue
			}
			seen[ck] = true
			sk := newSpecKey(specCiphers[ck.cipher].name, ck.secret)
			i := strings.IndexByte(lk, '/')
			proto, addr := lk[:i], lk[i+1:]
			var id string
			var authed, refused bool
			if proto == "tcp" {
				id, authed, refused = c.authTCP(addr, sk)
			} else {
				id, authed = c.authUDP(addr, sk)
			}
			if c.dead {
				return
			}
			res := "none"
			if authed {
				res = "id=" + hexOr(id)
			}
			if refused {
				res = "refused"
			}
			c.out.Op(fmt.Sprintf("cfg auth lk=%s cipher=%d secret=%s", hexOr(lk), ck.cipher, hexOr(ck.secret)), res)
			wantID, wantAuth := expectID(owned[lk], ck)
			c.out.Stat(fmt.Sprintf("probe.%s.auth=%v", proto, wantAuth), 1)
			if wantAuth != authed || (authed && wantID != id) {
				c.out.Oracle("C09", "listener %s, client key (%s, %q): server says authenticated=%v id=%q; the configuration binds it to authenticated=%v id=%q",
					lk, specCiphers[ck.cipher].name, ck.secret, authed, id, wantAuth, wantID)
			}
		}
	}
}

// ---- hammer: clients on a retained address while the reload runs ----

type hammer struct {
	stop     chan struct{}
	wg       sync.WaitGroup
	refused  int64
	tcpConns sync.Map // local addr -> echoed ok (bool)
	udpConns sync.Map // local addr -> a reply came back (bool)
	udpSent  int64
	n        int64
}

func (c *cfgCase) startHammer(lk string, ck clientKey) *hammer {
	c.events() // what earlier traffic left behind is not the hammer's
	h := &hammer{stop: make(chan struct{})}
	i := strings.IndexByte(lk, '/')
	proto, addr := lk[:i], lk[i+1:]
	sk := newSpecKey(specCiphers[ck.cipher].name, ck.secret)
	workers := 4
	for w := 0; w < workers; w++ {
		h.wg.Add(1)
		seed := c.r.U64()
		go func(w int) {
			defer h.wg.Done()
			lr := NewRng(seed)
			for k := 0; ; k++ {
				select {
				case <-h.stop:
					return
				default:
				}
				salt := lr.Bytes(sk.c.saltSize)
				token := fmt.Sprintf("hammer-%d-%d", w, k)
				atomic.AddInt64(&h.n, 1)
				if proto == "tcp" {
					res := c.probeTCP(addr, sk, salt, token, c.tg.echoPort)
					if res.refused {
						atomic.AddInt64(&h.refused, 1)
						continue
					}
					h.tcpConns.Store(res.local, string(res.echo) == token+"|tail")
				} else {
					conn, err := dialFrom("udp", dialAddr(addr))
					if err != nil {
						continue
					}
					conn.Write(sk.packUDP(salt, append(socksAddrV4(c.tg.ip, c.tg.echoPort), []byte(token)...)))
					atomic.AddInt64(&h.udpSent, 1)
					// the reply may be lost legitimately (the association dies with its generation);
					// what is checked is that exactly one generation handled the datagram (events)
					buf := make([]byte, 2048)
					conn.SetReadDeadline(time.Now().Add(60 * time.Millisecond))
					_, rerr := conn.Read(buf)
					h.udpConns.Store(conn.LocalAddr().String(), rerr == nil)
					conn.Close()
				}
			}
		}(w)
	}
	return h
}

// ---- relays opened before a reload ----

type relay struct {
	mode  string // idle mid half
	conn  net.Conn
	rd    *specStreamReader
	w     *specStreamWriter
	sent  []byte
	recvd []byte
	lk    string
}

func (c *cfgCase) openRelay(lk string, ck clientKey, mode string) *relay {
	addr := lk[strings.IndexByte(lk, '/')+1:]
	sk := newSpecKey(specCiphers[ck.cipher].name, ck.secret)
	conn, err := dialFrom("tcp", dialAddr(addr))
	if err != nil {
		return nil
	}
	salt := c.freshSalt(sk.c.saltSize)
	rl := &relay{mode: mode, conn: conn, rd: &specStreamReader{k: sk}, w: newSpecStreamWriter(sk, salt), lk: lk}
	first := []byte(fmt.Sprintf("relay-%d-", c.saltN))
	conn.SetDeadline(time.Now().Add(20 * time.Second))
	conn.Write(append(append([]byte{}, salt...), rl.w.chunk(append(socksAddrV4(c.tg.ip, c.tg.holdPort), first...))...))
	rl.sent = append(rl.sent, first...)
	if !rl.readN(len(first)) {
		conn.Close()
		return nil
	}
	switch mode {
	case "mid":
		big := c.r.Bytes(150000)
		go func() { // written while the reload happens; read afterwards
			for off := 0; off < len(big); off += 16000 {
				end := min(off+16000, len(big))
				if _, err := conn.Write(rl.w.chunk(big[off:end])); err != nil {
					return
				}
			}
		}()
		rl.sent = append(rl.sent, big...)
	case "half":
		conn.(*net.TCPConn).CloseWrite()
	}
	return rl
}

func (rl *relay) readN(n int) bool {
	buf := make([]byte, 32<<10)
	for len(rl.recvd) < n {
		k, err := rl.conn.Read(buf)
		if k > 0 {
			rl.rd.feed(buf[:k])
			p, derr := rl.rd.drain()
			rl.recvd = append(rl.recvd, p...)
			if derr != nil {
				return false
			}
		}
		if err != nil {
			return len(rl.recvd) >= n
		}
	}
	return true
}

// finish: after the reload the relay must still carry data both ways and end with the target's tail
func (rl *relay) finish(c *cfgCase) bool {
	defer rl.conn.Close()
	if rl.mode != "half" {
		if rl.mode == "mid" {
			if !rl.readN(len(rl.sent)) {
				return false
			}
		}
		more := []byte("after-reload")
		if _, err := rl.conn.Write(rl.w.chunk(more)); err != nil {
			return false
		}
		rl.sent = append(rl.sent, more...)
		if !rl.readN(len(rl.sent)) {
			return false
		}
		rl.conn.(*net.TCPConn).CloseWrite()
	}
	c.tg.releaseHeld()
	rl.readN(len(rl.sent) + 5)
	return string(rl.recvd) == string(rl.sent)+"|tail"
}

func (c *cfgCase) keyPool(fs ...*cfgFile) []clientKey {
	seen := map[clientKey]bool{}
	var pool []clientKey
	add := func(k cfgKey) {
		ck := clientKey{canonCipher(k.Cipher), k.Secret}
		if ck.cipher >= 0 && !seen[ck] {
			seen[ck] = true
			pool = append(pool, ck)
		}
	}
	for _, f := range fs {
		if f == nil {
			continue
		}
		for _, s := range f.Services {
			for _, k := range s.Keys {
				add(k)
			}
		}
		for _, k := range f.Keys {
			add(k.cfgKey)
		}
	}
	add(cfgKey{Cipher: "aes-128-gcm", Secret: "never-configured"})
	return pool
}

// retained: (listener key, client key) present in the serving configuration and in next, with the key
// in the owning list on both sides
func retainedPairs(old, next *cfgFile) (pairs [][2]any) {
	if old == nil {
		return nil
	}
	oo, om := old.owned()
	_, nm := next.owned()
	for _, lk := range oo {
		nk, ok := nm[lk]
		if !ok {
			continue
		}
		for _, k := range om[lk] {
			ck := clientKey{canonCipher(k.Cipher), k.Secret}
			if _, ok := expectID(nk, ck); ok && ck.cipher >= 0 {
				pairs = append(pairs, [2]any{lk, ck})
				break
			}
		}
	}
	return
}

// firstDatagramAfterReload: once a reload has COMPLETED, the first datagram a client sends to a UDP
// address that both configurations bind, under a key that both list, is answered (it is the new
// generation's to handle: the old one has been stopped and its associations are gone).  Earlier
// probes never saw this datagram: anything sent while the reload was in progress may legitimately
// lose its reply.
func (c *cfgCase) firstDatagramAfterReload(prev, next *cfgFile) {
	n := 0
	for _, p := range retainedPairs(prev, next) {
		lk, ck := p[0].(string), p[1].(clientKey)
		if !strings.HasPrefix(lk, "udp/") || n >= 3 {
			continue
		}
		n++
		addr := lk[4:]
		sk := newSpecKey(specCiphers[ck.cipher].name, ck.secret)
		answered := func(token string) bool {
			conn, err := dialFrom("udp", dialAddr(addr))
			if err != nil {
				return true // nothing was sent
			}
			defer conn.Close()
			conn.Write(sk.packUDP(c.freshSalt(sk.c.saltSize), append(socksAddrV4(c.tg.ip, c.tg.echoPort), []byte(token)...)))
			conn.SetReadDeadline(time.Now().Add(1500 * time.Millisecond))
			buf := make([]byte, 2048)
			for {
				k, err := conn.Read(buf)
				if err != nil {
					return false
				}
				if plain, err := sk.openUDP(buf[:k]); err == nil && bytes.HasSuffix(plain, []byte(token)) {
					return true
				}
			}
		}
		c.saltN++
		first := answered(fmt.Sprintf("after-reload-%d-a", c.saltN))
		c.out.Stat("reload.udp.first-datagram", 1)
		if !first && !c.dead {
			second := answered(fmt.Sprintf("after-reload-%d-b", c.saltN))
			c.out.Oracle("C11", "after a completed reload the first datagram to the retained address %s under a key of both configurations got no answer (the next one: answered=%v): it was not handled by the serving generation", lk, second)
		}
	}
	c.events()
}

func (c *cfgCase) step(first bool) {
	r := c.r
	var next *cfgFile
	scripted := false
	switch {
	case c.retry != nil && r.Chance(75): // the operator tries the same file again once the other process is gone
		next, c.retry, scripted = c.retry, nil, true
	case c.revert != nil && c.retry == nil && r.Chance(60): // ... and later goes back to what was serving before
		next, c.revert, scripted = c.revert, nil, true
	case c.cur != nil && r.Chance(65):
		next = c.genFrom(c.cur)
	default:
		next = c.genFresh()
	}
	clean := next.clone()
	ft := cfgFault{"none", "none"}
	if !scripted {
		ft = c.injectFault(next)
		c.retry, c.revert = nil, nil
		if ft.kind == "foreign-temporary" && c.cur != nil {
			c.retry, c.revert = next.clone(), c.cur.clone()
		}
	}
	path := c.writeFile(next, ft)
	c.out.Stat("fault."+ft.kind, 1)

	// relays and hammer need a serving configuration
	var relays []*relay
	var hm *hammer
	var hmLK string
	if c.cur != nil {
		order, owned := c.cur.owned()
		var tcpLKs []string
		for _, lk := range order {
			if strings.HasPrefix(lk, "tcp/") && len(owned[lk]) > 0 {
				tcpLKs = append(tcpLKs, lk)
			}
		}
		if len(tcpLKs) > 0 && r.Chance(60) {
			c.tg.holding.Store(true)
			for _, mode := range []string{"idle", "mid", "half"} {
				if r.Chance(60) {
					lk := Pick(r, tcpLKs)
					k := Pick(r, owned[lk])
					if rl := c.openRelay(lk, clientKey{canonCipher(k.Cipher), k.Secret}, mode); rl != nil {
						relays = append(relays, rl)
						c.out.Stat("relay."+mode, 1)
					} else {
						c.out.Oracle("C09", "a relay through %s with one of its keys could not be opened", lk)
					}
				}
			}
		}
		// retained pairs are computed against the configuration as written (a failing one included:
		// the address must stay bound and the key must keep working either way)
		if ps := retainedPairs(c.cur, next); len(ps) > 0 && r.Chance(70) {
			p := Pick(r, ps)
			hmLK = p[0].(string)
			hm = c.startHammer(hmLK, p[1].(clientKey))
			time.Sleep(time.Duration(1+r.Intn(5)) * time.Millisecond)
		}
	}

	cmd := "load"
	if first {
		cmd = "start"
	}
	var ans string
	var err error
	if first {
		ans, err = c.d.call("start %s 1000 400", path)
	} else {
		ans, err = c.d.call("load %s", path)
	}
	if err != nil {
		c.dead = true
		c.out.Oracle("*", "the server process died or hung during %s of %s (%s): %v: %s", cmd, filepath.Base(path), ft.kind, err, tailStr(c.d.stderr.String(), 1500))
		return
	}
	for _, h := range c.held {
		h.Close()
	}
	c.held = nil
	ok := ans == "ok"
	res := "err"
	if ok {
		res = "ok"
	}
	c.lastPath, c.lastOp = path, fmt.Sprintf("cfg load fault=%s %s", ft.model, c.modelFields(next))
	c.out.Op(c.lastOp, res+" # "+ft.kind+" "+ans)
	if ok != (ft.kind == "none") {
		c.out.Oracle("C10", "loading a configuration with fault %q answered %q", ft.kind, ans)
	}
	prev := c.cur
	if ok {
		c.cur = next
	}
	_ = clean

	if hm != nil {
		time.Sleep(time.Duration(2+r.Intn(8)) * time.Millisecond)
		c.finishHammer(hm, hmLK, ft.kind)
	}

	c.retainedUDP = map[string]bool{}
	if ok && !first && prev != nil {
		_, pm := prev.owned()
		_, nm := next.owned()
		for lk := range pm {
			if _, both := nm[lk]; both && strings.HasPrefix(lk, "udp/") {
				c.retainedUDP[lk] = true
			}
		}
		c.firstDatagramAfterReload(prev, next)
	}
	if ok && hm == nil && !first {
		c.replayServed("after-reload")
	}
	c.opBound()
	c.probeAll(c.keyPool(c.cur, prev, next))
	if c.r.Chance(50) {
		c.replayServed("other-listener")
	}

	if len(relays) > 0 {
		broken := 0
		for _, rl := range relays {
			if !rl.finish(c) {
				broken++
				c.out.Oracle("C11", "a relayed connection (%s) opened through %s before the reload (%s, %s) did not run to completion: sent %d bytes, got %d", rl.mode, rl.lk, ft.kind, res, len(rl.sent), len(rl.recvd))
			}
		}
		c.out.Op("cfg relays", fmt.Sprintf("broken=%d # %d", broken, len(relays)))
		c.events()
	}
}

// settleGoroutines: the goroutine count of the driver once it stops falling (or reaches want)
func settleGoroutines(d *cfgDriver, want int) int {
	deadline := time.Now().Add(4 * time.Second)
	g, last, stable := 0, -1, 0
	for {
		s, err := d.call("goroutines")
		if err != nil {
			return g
		}
		g, _ = strconv.Atoi(s)
		if g <= want && want < 1<<30 {
			return g
		}
		if g == last {
			stable++
		} else {
			stable = 0
		}
		last = g
		if (want == 1<<30 && stable >= 4) || time.Now().After(deadline) {
			return g
		}
		time.Sleep(60 * time.Millisecond)
	}
}

// finishHammer stops the clients and holds what they saw against the metric events of the server
func (c *cfgCase) finishHammer(hm *hammer, hmLK string, kind string) {
	close(hm.stop)
	hm.wg.Wait()
	// every hammer connection: opened once, authenticated
	evs := c.events()
	deadline := time.Now().Add(2 * time.Second)
	unauth, dup, total, unechoed, lost, utotal, unanswered, dialAborted := 0, 0, 0, 0, 0, 0, 0, 0
	for {
		opens := map[string]int{}
		auths := map[string]int{}
		uadds := map[string]int{}
		status := map[string]string{}
		for _, e := range evs {
			if e.kind == "tcpclosed" {
				status[e.remote] = e.arg
			}
			if e.kind == "tcpopen" {
				opens[e.remote]++
			}
			if e.kind == "tcpauth" {
				auths[e.remote]++
			}
			if e.kind == "udpadd" {
				uadds[e.remote]++
			}
		}
		unauth, dup, total, unechoed, lost, utotal, unanswered, dialAborted = 0, 0, 0, 0, 0, 0, 0, 0
		missing := 0
		hm.udpConns.Range(func(k, v any) bool {
			utotal++
			switch n := uadds[k.(string)]; {
			case n == 0:
				lost++
				missing++
			case n > 1:
				dup++
			}
			if !v.(bool) {
				unanswered++
			}
			return true
		})
		hm.tcpConns.Range(func(k, v any) bool {
			total++
			if opens[k.(string)] == 0 {
				missing++
			} else if opens[k.(string)] > 1 {
				dup++
			}
			if auths[k.(string)] == 0 {
				unauth++
			}
			// A connection that authenticated and was still DIALLING its target when the old
			// generation stopped is aborted (StreamServe cancels the handlers' context when its
			// listener closes; the context only governs the dial).  C11 speaks of connections
			// that are refused, unauthenticated, or already relaying: this one is none of those,
			// so it is counted apart and not held against the property.
			if !v.(bool) && status[k.(string)] == "ERR_CONNECT" && auths[k.(string)] > 0 {
				dialAborted++
			} else if !v.(bool) {
				unechoed++
			}
			return true
		})
		if (missing == 0 && unauth == 0) || time.Now().After(deadline) || c.dead {
			break
		}
		time.Sleep(5 * time.Millisecond)
		evs = append(evs, c.events()...)
	}
	c.out.Op("cfg hammer", fmt.Sprintf("refused=%d unauth=%d lost=%d dup=%d # lk=%s tcp=%d udp=%d unanswered=%d fault=%s", hm.refused, unauth+unechoed, lost, dup, hmLK, total, utotal, unanswered, kind))
	c.out.Stat("hammer.udp.unanswered", unanswered)
	c.out.Stat("hammer.tcp.dial-aborted-by-reload", dialAborted)
	c.out.Stat("hammer.ops", int(hm.n))
	if hm.refused > 0 {
		c.out.Oracle("C11", "%d connection attempts to the retained address %s were refused during a reload (%s)", hm.refused, hmLK, kind)
	}
	if unauth+unechoed > 0 {
		hm.tcpConns.Range(func(k, v any) bool {
			var mine []string
			for _, e := range evs {
				if e.remote == k.(string) {
					mine = append(mine, e.kind+":"+e.arg)
				}
			}
			if !v.(bool) || !strings.Contains(strings.Join(mine, " "), "tcpauth") {
				c.out.Note("unserved hammer connection %s echoed=%v events=%v", k, v, mine)
			}
			return true
		})
		c.out.Oracle("C11", "%d of %d connections to the retained address %s with a key present in both configurations were not served during a reload (%s)", unauth+unechoed, total, hmLK, kind)
	}
	if lost > 0 || dup > 0 {
		c.out.Oracle("C11", "retained address %s during a reload (%s): %d datagrams handled by no generation, %d connections or datagrams handled twice", hmLK, kind, lost, dup)
	}
}

// storm: many consecutive reloads, alternating between two configurations that both keep one
// (listener, key) pair, while clients hammer that listener
func (c *cfgCase) storm() {
	r := c.r
	ps := retainedPairs(c.cur, c.cur)
	if len(ps) == 0 || c.dead {
		return
	}
	p := Pick(r, ps)
	lk, ck := p[0].(string), p[1].(clientKey)
	keeps := func(f *cfgFile) bool {
		for _, q := range retainedPairs(c.cur, f) {
			if q[0].(string) == lk && q[1].(clientKey) == ck {
				return true
			}
		}
		return false
	}
	alt := c.cur.clone()
	for try := 0; try < 6; try++ {
		if f := c.genFrom(c.cur); keeps(f) {
			alt = f
			break
		}
	}
	cfgs := []*cfgFile{alt, c.cur}
	paths := []string{c.writeFile(alt, cfgFault{"none", "none"}), c.writeFile(c.cur, cfgFault{"none", "none"})}
	hm := c.startHammer(lk, ck)
	k := 8 + r.Intn(30)
	for i := 0; i < k && !c.dead; i++ {
		ans, err := c.d.call("load %s", paths[i%2])
		if err != nil {
			c.dead = true
			c.out.Oracle("*", "the server process died or hung during consecutive reloads: %v: %s", err, tailStr(c.d.stderr.String(), 1500))
			break
		}
		res := "err"
		if ans == "ok" {
			res = "ok"
			c.cur = cfgs[i%2]
		} else {
			c.out.Oracle("C10", "reloading a valid configuration during consecutive reloads answered %q", ans)
		}
		c.lastPath, c.lastOp = paths[i%2], "cfg load fault=none "+c.modelFields(cfgs[i%2])
		c.out.Op(c.lastOp, res+" # storm "+ans)
		if r.Chance(30) {
			time.Sleep(time.Duration(r.Intn(3)) * time.Millisecond)
		}
	}
	c.out.Stat("storm.reloads", k)
	if !c.dead {
		c.finishHammer(hm, lk, "consecutive-reloads")
		// both configurations of the storm bind the addresses they share the whole time
		c.retainedUDP = map[string]bool{}
		_, am := cfgs[0].owned()
		_, bm := cfgs[1].owned()
		for l := range am {
			if _, both := bm[l]; both && strings.HasPrefix(l, "udp/") {
				c.retainedUDP[l] = true
			}
		}
		c.firstDatagramAfterReload(cfgs[0], cfgs[1])
		c.opBound()
		c.probeAll(c.keyPool(c.cur, alt))
	}
}

func tailStr(s string, n int) string {
	if len(s) > n {
		return s[len(s)-n:]
	}
	return s
}

func configEngine(rng *Rng, n int, out *Out, args map[string]string) {
	e := setupNet(args, out)
	if !e.netns || len(e.publicV4) == 0 {
		out.Note("config engine needs the private network namespace (netns=1)")
		return
	}
	bin := args["driver"]
	if bin == "" {
		exe, _ := os.Executable()
		bin = filepath.Join(filepath.Dir(exe), "ssdriver")
	}
	if _, err := os.Stat(bin); err != nil {
		out.Oracle("*", "server driver binary %s is missing: %v", bin, err)
		return
	}
	tg := &cfgTargets{ip: "203.0.113.10", echoPort: 9000, holdPort: 9001}
	if !tg.start(out) {
		return
	}
	// foreign sockets
	if l, err := net.Listen("tcp", cfgForeign); err == nil {
		defer l.Close()
	}
	if u, err := net.ListenPacket("udp", cfgForeign); err == nil {
		defer u.Close()
	}
	if u, err := net.ListenPacket("udp", fmt.Sprintf("127.0.0.1:%d", cfgLegacyForeign)); err == nil {
		defer u.Close()
	}
	dir, err := os.MkdirTemp("", "verifcfg")
	if err != nil {
		out.Note("tempdir: %v", err)
		return
	}
	defer os.RemoveAll(dir)
	for i := 0; i < n; i++ {
		if out.oracle >= 12 {
			out.Note("stopping after %d oracle reports: the remaining cases would only repeat them", out.oracle)
			break
		}
		d, err := startDriver(bin)
		if err != nil {
			out.Oracle("*", "cannot start the server driver: %v", err)
			return
		}
		c := &cfgCase{r: rng.Fork(), out: out, d: d, tg: tg, dir: dir}
		out.Op("cfg reset", "ok")
		base := -1
		started := false
		steps := 3 + c.r.Intn(5)
		for s := 0; s < steps && !c.dead; s++ {
			t0 := time.Now()
			if started && c.cur != nil && c.r.Chance(25) {
				c.storm()
				if args["timing"] == "1" {
					out.Note("storm took %v", time.Since(t0))
				}
				continue
			}
			c.step(!started)
			if args["timing"] == "1" {
				out.Note("step took %v", time.Since(t0))
			}
			if c.cur != nil && !started {
				started = true
				// baseline for the leak check: stop once, count the goroutines of the idle process
				// (signal handling, test runner), load the same file again
				if ans, err := d.call("stop"); err == nil {
					out.Op("cfg stop", ans)
					time.Sleep(600 * time.Millisecond) // associations of the probes expire (400 ms)
					base = settleGoroutines(d, 1<<30)
					saved := c.cur
					c.cur = nil
					c.opBound()
					if ans, err := d.call("load %s", c.lastPath); err == nil && ans == "ok" {
						c.cur = saved
						out.Op(c.lastOp, "ok")
					} else {
						out.Op(c.lastOp, "err # reload of the same file: "+ans)
						out.Oracle("C10", "loading the same configuration again after Stop failed: %s", ans)
					}
				}
			}
		}
		if !c.dead && started {
			ans, err := d.call("stop")
			if err != nil {
				c.dead = true
				out.Oracle("*", "the server process died or hung during stop: %v: %s", err, tailStr(d.stderr.String(), 1500))
			} else {
				c.cur = nil
				out.Op("cfg stop", ans)
				c.opBound()
				// everything the configurations started must be gone: compare with the count while the
				// first configuration was serving idle (which already includes its accept loops)
				g := settleGoroutines(d, base)
				if base > 0 && g > base {
					dump, _ := d.call("stacks")
					out.Oracle("C10", "%d goroutines remain after Stop, %d before anything was loaded: %s", g, base, tailStr(dump, 1200))
					out.Oracle("C18", "%d goroutines remain after Stop, %d before anything was loaded", g, base)
				}
				out.Stat("stop.goroutines.left", g)
			}
		}
		if strings.Contains(d.stderr.String(), "panic:") || strings.Contains(d.stderr.String(), "fatal error:") {
			out.Oracle("*", "the server process crashed: %s", tailStr(d.stderr.String(), 2000))
		}
		d.quit()
		if args["stderr"] != "" {
			f, _ := os.OpenFile(args["stderr"], os.O_APPEND|os.O_CREATE|os.O_WRONLY, 0o644)
			f.Write(d.stderr.Bytes())
			f.Close()
		}
		out.Stat("case", 1)
	}
}
