package main

import (
	"container/list"
	"fmt"
	"net"
	"net/netip"
	"os"
	"runtime"
	"runtime/pprof"
	"strings"
	"sync"
	"sync/atomic"
	"time"

	"github.com/Jigsaw-Code/outline-sdk/transport/shadowsocks"
	"github.com/Jigsaw-Code/outline-ss-server/service"
)

// Engines "conc" and "lockstress": concurrent use of the shared components from many goroutines.
// They are the failing-input search for C19 / C13 / C07(exactly one winner) / C01(concurrent
// lookups vs updates): the property itself is decided by theorems over generated lock facts;
// these runs look for a schedule on the real code where an oracle fails (and, when the binary is
// built with -race, for a data race report).  Each summary op is also answered by the model
// driver with what the theorems promise.
func init() {
	engines["conc"] = concEngine
	engines["lockstress"] = lockStressEngine
}

func barrier(n int) (wait func(), release func()) {
	var ready sync.WaitGroup
	ready.Add(n)
	start := make(chan struct{})
	return func() { ready.Done(); <-start }, func() { ready.Wait(); close(start) }
}

func concEngine(rng *Rng, n int, out *Out, args map[string]string) {
	concReplay(rng.Fork(), n, out)
	concReplayRotation(rng.Fork(), n, out)
	concCipherList(rng.Fork(), n, out)
	concSalts(rng.Fork(), n, out)
	concNatTable(rng.Fork(), n, out)
}

// the association table under churn: associations expire (each on its own goroutine) while first datagrams of other
// clients create new ones, on the real packet handler over loopback sockets.  Under the race detector an unguarded
// access of the table is reported; without it the run still checks that every client is answered and that the
// handler ends when its socket closes.
func concNatTable(r *Rng, n int, out *Out) {
	entries := []cfgEntry{{ref: 1, id: "k", cipher: "chacha20-ietf-poly1305", secret: "nat-race", keyref: 0}}
	cl, err := makeCipherList(entries)
	if err != nil {
		return
	}
	sink, err := net.ListenPacket("udp", "127.0.0.1:0")
	if err != nil {
		return
	}
	defer sink.Close()
	go func() {
		buf := make([]byte, 2048)
		for {
			k, a, err := sink.ReadFrom(buf)
			if err != nil {
				return
			}
			sink.WriteTo(buf[:k], a)
		}
	}()
	ph := service.NewPacketHandler(15*time.Millisecond, cl, nil, nil)
	ph.SetTargetIPValidator(func(net.IP) error { return nil })
	pc, err := net.ListenPacket("udp", "127.0.0.1:0")
	if err != nil {
		return
	}
	done := make(chan struct{})
	go func() { ph.Handle(pc); close(done) }()
	key := newSpecKey("chacha20-ietf-poly1305", "nat-race")
	sa := sink.LocalAddr().(*net.UDPAddr)
	hdr := socksV4(sa.IP, sa.Port)
	var sent, answered int64
	var wg sync.WaitGroup
	stopAt := time.Now().Add(time.Duration(40*n) * time.Millisecond)
	for w := 0; w < 6; w++ {
		wg.Add(1)
		seed := r.U64()
		go func() {
			defer wg.Done()
			lr := NewRng(seed)
			for time.Now().Before(stopAt) {
				c, err := net.Dial("udp", pc.LocalAddr().String())
				if err != nil {
					continue
				}
				c.Write(key.packUDP(lr.Bytes(key.c.saltSize), append(append([]byte{}, hdr...), []byte("churn")...)))
				atomic.AddInt64(&sent, 1)
				c.SetReadDeadline(time.Now().Add(300 * time.Millisecond))
				buf := make([]byte, 2048)
				if _, err := c.Read(buf); err == nil {
					atomic.AddInt64(&answered, 1)
				}
				// let some associations run into their timeout while others are being created
				time.Sleep(time.Duration(lr.Intn(25)) * time.Millisecond)
				c.Close()
			}
		}()
	}
	wg.Wait()
	pc.Close()
	select {
	case <-done:
	case <-time.After(3 * time.Second):
		out.Oracle("C18", "the packet handler did not return within 3 s after its socket was closed (association churn)")
	}
	if s, a := atomic.LoadInt64(&sent), atomic.LoadInt64(&answered); s > 0 && a*10 < s*9 {
		out.Oracle("C19", "association table under churn: only %d of %d first datagrams were answered", a, s)
	}
	out.Op("conc nat churn", "ok")
	out.Stat("conc.nat.datagrams", int(sent))
}

// one key's salt generator used by many connections at once (every response writer of a key shares
// it, and the authenticator asks it about every incoming salt): each salt it issues must be
// recognised as its own, by itself and by the independent HMAC implementation
func concSalts(r *Rng, n int, out *Out) {
	var bad, total int64
	for _, size := range []int{32, 24} {
		secret := fmt.Sprintf("conc-secret-%d", r.Intn(1000))
		g := service.NewServerSaltGenerator(secret)
		workers := 8
		per := 200 * n
		wait, release := barrier(workers)
		var wg sync.WaitGroup
		for w := 0; w < workers; w++ {
			wg.Add(1)
			go func() {
				defer wg.Done()
				wait()
				for i := 0; i < per; i++ {
					salt := make([]byte, size)
					if err := g.GetSalt(salt); err != nil {
						atomic.AddInt64(&bad, 1)
						continue
					}
					atomic.AddInt64(&total, 1)
					if !g.IsServerSalt(salt) || !specIsServerSalt(secret, salt) {
						if atomic.AddInt64(&bad, 1) <= 2 {
							out.Oracle("C08", "with %d connections of one key issuing salts at the same time, a %d-byte salt the server issued is not recognisable as its own (by the generator: %v, by the specification: %v)", workers, size, g.IsServerSalt(salt), specIsServerSalt(secret, salt))
							out.Oracle("C19", "concurrent use of one key's salt generator produced a salt it does not recognise")
						}
					}
				}
			}()
		}
		release()
		wg.Wait()
	}
	out.Op("conc salts", fmt.Sprintf("unrecognised=%d", bad))
	out.Stat("conc.salts", int(total))
}

// copies of one fresh handshake plus unrelated fresh handshakes, all released together, total
// below the history size: exactly one copy may be accepted (C07), in every round.
func concReplay(r *Rng, n int, out *Out) {
	rounds := n * 40
	bad := 0
	for _, capacity := range []int{4, 8, 64} {
		rc := service.NewReplayCache(capacity)
		var wgResize sync.WaitGroup
		stop := make(chan struct{})
		wgResize.Add(1)
		go func() { // resizes that never lower the capacity in effect
			defer wgResize.Done()
			for {
				select {
				case <-stop:
					return
				default:
					rc.Resize(capacity)
					runtime.Gosched()
				}
			}
		}()
		for i := 0; i < rounds; i++ {
			copies := 2 + r.Intn(2)
			others := r.Intn(capacity - copies)
			if others > 2 {
				others = 2
			}
			salt := r.Bytes(32)
			var accepted int32
			wait, release := barrier(copies + others)
			var wg sync.WaitGroup
			for c := 0; c < copies; c++ {
				wg.Add(1)
				go func() {
					defer wg.Done()
					wait()
					if rc.Add("key", salt) {
						atomic.AddInt32(&accepted, 1)
					}
				}()
			}
			for o := 0; o < others; o++ {
				s := r.Bytes(32)
				wg.Add(1)
				go func() {
					defer wg.Done()
					wait()
					rc.Add("key", s)
				}()
			}
			release()
			wg.Wait()
			if accepted != 1 {
				bad++
				if bad <= 3 {
					out.Oracle("C07", "%d of %d concurrent copies of one fresh handshake were accepted (history %d, %d other handshakes in flight)", accepted, copies, capacity, others)
					out.Oracle("C19", "ReplayCache.Add is not atomic: %d of %d concurrent copies of one fresh handshake were accepted", accepted, copies)
				}
			}
		}
		close(stop)
		wgResize.Wait()
	}
	out.Op(fmt.Sprintf("conc replay rounds=%d", 3*rounds), fmt.Sprintf("rounds-with-exactly-one-winner=%d", 3*rounds-bad))
	out.Stat("conc.replay.rounds", 3*rounds)
}

// a replay racing the rotation: the active set is exactly full with the victim in it; replays of the victim arrive
// together with ONE never-seen handshake, whose Add rotates the generations.  Only one other handshake came in between,
// so every replay must be refused (history 4) — a lookup in the archive made before the lock is taken misses the
// victim the rotation is about to move there.
func concReplayRotation(r *Rng, n int, out *Out) {
	const capacity = 4
	trials := n * 1500
	prev := runtime.GOMAXPROCS(0)
	if prev < 4 {
		runtime.GOMAXPROCS(4)
		defer runtime.GOMAXPROCS(prev)
	}
	bad := 0
	for t := 0; t < trials && bad < 3; t++ {
		rc := service.NewReplayCache(capacity)
		for i := 0; i < capacity-1; i++ {
			rc.Add("key", r.Bytes(32))
		}
		victim := r.Bytes(32)
		rc.Add("key", victim)
		fresh := r.Bytes(32)
		const replays = 6
		var accepted int32
		wait, release := barrier(replays + 1)
		var wg sync.WaitGroup
		for c := 0; c < replays; c++ {
			wg.Add(1)
			go func() {
				defer wg.Done()
				wait()
				if rc.Add("key", victim) {
					atomic.AddInt32(&accepted, 1)
				}
			}()
		}
		wg.Add(1)
		go func() {
			defer wg.Done()
			wait()
			rc.Add("key", fresh)
		}()
		release()
		wg.Wait()
		if accepted != 0 {
			bad++
			out.Oracle("C07", "a replay of a handshake accepted 1 handshake ago was ACCEPTED (history %d): %d of %d replays racing the Add that rotates the generations got through (trial %d)", capacity, accepted, replays, t)
			out.Oracle("C19", "ReplayCache.Add is not atomic: a replay racing the rotating Add was accepted")
		}
	}
	out.Op(fmt.Sprintf("conc replay-rotation trials=%d", trials), fmt.Sprintf("replays-accepted=%d", bad))
	out.Stat("conc.replay.rotation-trials", trials)
}

// lookups (snapshot + mark used) against key-list replacements: every snapshot must be a list of
// distinct, non-nil elements of one list generation (C01 completeness under concurrency).
func concCipherList(r *Rng, n int, out *Out) {
	mk := func(k int, gen int) *list.List {
		l := list.New()
		for i := 0; i < k; i++ {
			key, _ := shadowsocks.NewEncryptionKey("chacha20-ietf-poly1305", fmt.Sprintf("s%d", i))
			e := service.MakeCipherEntry(fmt.Sprintf("g%d-k%d", gen, i), key, "s")
			l.PushBack(&e)
		}
		return l
	}
	cl := service.NewCipherList()
	size := 200
	cl.Update(mk(size, 0))
	var bad int32
	var snaps int64
	stop := make(chan struct{})
	var wg sync.WaitGroup
	ips := []netip.Addr{netip.MustParseAddr("198.51.100.1"), netip.MustParseAddr("198.51.100.2"), netip.MustParseAddr("2001:db8::1"), {}}
	workers := 8
	for w := 0; w < workers; w++ {
		wg.Add(1)
		seed := r.U64()
		go func() {
			defer wg.Done()
			defer func() {
				if p := recover(); p != nil {
					if atomic.AddInt32(&bad, 1) <= 3 {
						out.Oracle("C01", "concurrent lookup panicked: %v", p)
						out.Oracle("C19", "concurrent key-list lookup panicked: %v", p)
					}
				}
			}()
			lr := NewRng(seed)
			for {
				select {
				case <-stop:
					return
				default:
				}
				ip := ips[lr.Intn(len(ips))]
				snap := cl.SnapshotForClientIP(ip)
				atomic.AddInt64(&snaps, 1)
				seen := map[*list.Element]bool{}
				gen := ""
				for _, e := range snap {
					if e == nil || seen[e] {
						if atomic.AddInt32(&bad, 1) <= 3 {
							out.Oracle("C01", "snapshot of a %d-key list has a nil or repeated element (len %d): a configured key is missing from it", size, len(snap))
							out.Oracle("C19", "concurrent SnapshotForClientIP returned a nil or repeated element")
						}
						break
					}
					seen[e] = true
					id := e.Value.(*service.CipherEntry).ID
					g := id[:strings.IndexByte(id, '-')]
					if gen == "" {
						gen = g
					} else if g != gen {
						if atomic.AddInt32(&bad, 1) <= 3 {
							out.Oracle("C19", "snapshot mixes two list generations")
						}
						break
					}
				}
				if len(snap) != size {
					if atomic.AddInt32(&bad, 1) <= 3 {
						out.Oracle("C01", "snapshot has %d elements for a %d-key list", len(snap), size)
					}
				}
				// the front entries are the ones shared by all clients: mark one of the first few
				if len(snap) > 0 {
					cl.MarkUsedByClientIP(snap[lr.Intn(min(len(snap), 3))], ip)
				}
			}
		}()
	}
	updates := 0
	deadline := time.Now().Add(time.Duration(n) * 25 * time.Millisecond)
	for time.Now().Before(deadline) {
		updates++
		cl.Update(mk(size, updates))
		time.Sleep(200 * time.Microsecond)
	}
	close(stop)
	wg.Wait()
	out.Op("conc cipherlist", fmt.Sprintf("bad-snapshots=%d", bad))
	out.Stat("conc.cipherlist.snapshots", int(snaps))
	out.Stat("conc.cipherlist.updates", updates)
}

// lockStressEngine: N goroutines × ListenStream/ListenPacket/Close on 1–3 addresses of one manager,
// with a watchdog.  On a hang the goroutine dump is searched for the wait-for cycle.
func lockStressEngine(rng *Rng, n int, out *Out, args map[string]string) {
	setupNet(args, out)
	m := service.NewListenerManager()
	addrs := []string{"127.0.0.1:19001", "127.0.0.1:19002", "127.0.0.1:19003", "127.0.0.1:19009"}
	// 19009 is occupied by foreign sockets: every listen on it fails, again and again
	if l, err := net.Listen("tcp", "127.0.0.1:19009"); err == nil {
		defer l.Close()
	}
	if u, err := net.ListenPacket("udp", "127.0.0.1:19009"); err == nil {
		defer u.Close()
	}
	workers := 12
	var ops int64
	done := make(chan struct{})
	var wg sync.WaitGroup
	stop := make(chan struct{})
	for w := 0; w < workers; w++ {
		wg.Add(1)
		seed := rng.U64()
		go func() {
			defer wg.Done()
			r := NewRng(seed)
			var held []interface{ Close() error }
			for {
				select {
				case <-stop:
					for _, h := range held {
						h.Close()
					}
					return
				default:
				}
				a := addrs[r.Intn(1+r.Intn(len(addrs)))]
				if r.Chance(3) {
					a = addrs[3]
				}
				if r.Chance(2) {
					a = "127.0.0.1:99999" // cannot even be resolved (port out of range): the earliest failure exit of a listen
				}
				if len(held) > 0 && r.Chance(55) {
					i := r.Intn(len(held))
					held[i].Close()
					held = append(held[:i], held[i+1:]...)
				} else if r.Bool() {
					if ln, err := m.ListenStream(a); err == nil {
						held = append(held, ln)
					}
				} else {
					if pc, err := m.ListenPacket(a); err == nil {
						held = append(held, pc)
					}
				}
				atomic.AddInt64(&ops, 1)
			}
		}()
	}
	// clients: connections and datagrams keep arriving on the addresses while handles come and go, so
	// that a last Close finds the accept loop holding a connection nobody has taken (and a read loop
	// holding a datagram); nobody ever calls Accept/ReadFrom here
	var clientOps int64
	for cl := 0; cl < 3; cl++ {
		seed := rng.U64()
		go func() {
			r := NewRng(seed)
			for {
				select {
				case <-stop:
					return
				default:
				}
				a := addrs[r.Intn(3)]
				if r.Bool() {
					if c, err := net.DialTimeout("tcp", a, 20*time.Millisecond); err == nil {
						atomic.AddInt64(&clientOps, 1)
						if r.Bool() {
							time.Sleep(time.Duration(r.Intn(300)) * time.Microsecond)
						}
						c.Close()
					}
				} else if c, err := net.Dial("udp", a); err == nil {
					c.Write([]byte("x"))
					atomic.AddInt64(&clientOps, 1)
					c.Close()
				}
				time.Sleep(time.Duration(r.Intn(200)) * time.Microsecond)
			}
		}()
	}
	go func() { wg.Wait(); close(done) }()
	dur := time.Duration(n) * 20 * time.Millisecond
	time.Sleep(dur)
	close(stop)
	hung := false
	select {
	case <-done:
	case <-time.After(4 * time.Second):
		hung = true
		var sb strings.Builder
		pprof.Lookup("goroutine").WriteTo(&sb, 1)
		dump := sb.String()
		cycle := []string{}
		for _, blk := range strings.Split(dump, "\n\n") {
			if strings.Contains(blk, "sync.(*Mutex).Lock") && strings.Contains(blk, "service.") {
				for _, ln := range strings.Split(blk, "\n") {
					if strings.Contains(ln, "service.(") && len(cycle) < 12 {
						cycle = append(cycle, strings.TrimSpace(strings.Split(ln, "+0x")[0]))
					}
				}
			}
		}
		out.Oracle("C13", "listen/close calls did not return within 4 s after %d operations: goroutines blocked on mutexes in %v", atomic.LoadInt64(&ops), cycle)
		fmt.Fprintln(os.Stderr, dump[:min(len(dump), 6000)])
	}
	// the manager must remain usable
	usable := true
	if !hung {
		okCh := make(chan bool, 1)
		go func() {
			ln, err := m.ListenStream(addrs[0])
			if err == nil {
				err = ln.Close()
			}
			pc, err2 := m.ListenPacket(addrs[0])
			if err2 == nil {
				err2 = pc.Close()
			}
			okCh <- err == nil && err2 == nil
		}()
		select {
		case usable = <-okCh:
			if !usable {
				out.Oracle("C13", "after all calls returned the manager cannot listen on %s any more", addrs[0])
			}
		case <-time.After(3 * time.Second):
			usable = false
			out.Oracle("C13", "after all calls returned a new listen call on the manager hangs")
		}
		// the address is free again: bind it directly
		if l, err := net.Listen("tcp", addrs[0]); err != nil {
			out.Oracle("C12", "after every handle was closed %s is still bound: %v", addrs[0], err)
		} else {
			l.Close()
		}
	}
	out.Op("locks stress", fmt.Sprintf("completed=%v usable=%v", !hung, usable))
	out.Stat("lockstress.ops", int(ops))
	out.Stat("lockstress.client-arrivals", int(atomic.LoadInt64(&clientOps)))
}
