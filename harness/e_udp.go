package main

import (
	"bytes"
	"context"
	"fmt"
	"log/slog"
	"net"
	"os"
	"runtime"
	"sort"
	"strings"
	"sync"
	"time"

	"github.com/Jigsaw-Code/outline-sdk/transport/shadowsocks"
	onet "github.com/Jigsaw-Code/outline-ss-server/net"
	"github.com/Jigsaw-Code/outline-ss-server/service"
)

// Engine "udp": drives the real packet handler (service.NewPacketHandler(...).Handle) through a
// scripted client-side PacketConn, real outbound sockets and real target sockets.
// One op per client datagram / target reply / association removal; results are the observable
// effects (metric calls, datagrams seen by targets, datagrams written back to the client).
// Oracles: C03 (authenticated, attributed, intact), C04 (one stable private socket per client),
// C05 (default policy end to end), C14 (removed exactly once, shutdown expires all),
// C16 (metric calls and byte sums), C18 (no panic).
func init() { engines["udp"] = udpEngine }

// ---------------------------------------------------------------- scripted client-side conn

type scriptPkt struct {
	data []byte
	addr net.Addr
}

type scriptConn struct {
	in     chan scriptPkt
	idle   chan struct{}
	closed chan struct{}
	once   sync.Once
	ev     *events
}

func newScriptConn(ev *events) *scriptConn {
	return &scriptConn{in: make(chan scriptPkt), idle: make(chan struct{}, 1), closed: make(chan struct{}), ev: ev}
}

func (c *scriptConn) ReadFrom(p []byte) (int, net.Addr, error) {
	select {
	case c.idle <- struct{}{}:
	default:
	}
	select {
	case pkt := <-c.in:
		n := copy(p, pkt.data) // truncates like the kernel
		return n, pkt.addr, nil
	case <-c.closed:
		return 0, nil, net.ErrClosed
	}
}
func (c *scriptConn) WriteTo(p []byte, addr net.Addr) (int, error) {
	c.ev.add(event{kind: "toclient", client: addr.String(), data: append([]byte{}, p...)})
	return len(p), nil
}
func (c *scriptConn) Close() error { c.once.Do(func() { close(c.closed) }); return nil }
func (c *scriptConn) LocalAddr() net.Addr {
	return &net.UDPAddr{IP: net.IPv4(192, 0, 2, 1), Port: 9999}
}
func (c *scriptConn) SetDeadline(t time.Time) error      { return nil }
func (c *scriptConn) SetReadDeadline(t time.Time) error  { return nil }
func (c *scriptConn) SetWriteDeadline(t time.Time) error { return nil }

// ---------------------------------------------------------------- recorded events

type event struct {
	kind   string // search natadd report fromtarget natremove toclient panic
	client string
	s      string
	a, b   int64
	flag   bool
	data   []byte
}

type events struct {
	mu sync.Mutex
	l  []event
	c  *sync.Cond
}

func newEvents() *events { e := &events{}; e.c = sync.NewCond(&e.mu); return e }
func (e *events) add(ev event) {
	e.mu.Lock()
	e.l = append(e.l, ev)
	e.mu.Unlock()
	e.c.Broadcast()
}
func (e *events) take() []event {
	e.mu.Lock()
	defer e.mu.Unlock()
	l := e.l
	e.l = nil
	return l
}

// waitFor waits until an event satisfying pred is queued (or timeout); does not remove anything.
func (e *events) waitFor(pred func(event) bool, d time.Duration) bool {
	deadline := time.Now().Add(d)
	for {
		e.mu.Lock()
		for _, x := range e.l {
			if pred(x) {
				e.mu.Unlock()
				return true
			}
		}
		e.mu.Unlock()
		if time.Now().After(deadline) {
			return false
		}
		time.Sleep(200 * time.Microsecond)
	}
}

// removeGate lets the harness hold a copier goroutine inside RemoveNatEntry, i.e. in the middle of
// its teardown (after its read timed out, before the entry is deleted and the socket closed).
type removeGate struct {
	mu      sync.Mutex
	armed   bool
	reached chan struct{}
	release chan struct{}
}

func (g *removeGate) take() bool {
	if g == nil {
		return false
	}
	g.mu.Lock()
	defer g.mu.Unlock()
	a := g.armed
	g.armed = false
	return a
}

type udpMetricsRec struct {
	ev   *events
	gate *removeGate
}

func (m *udpMetricsRec) AddUDPNatEntry(clientAddr net.Addr, accessKey string) service.UDPConnMetrics {
	m.ev.add(event{kind: "natadd", client: clientAddr.String(), s: accessKey})
	return &udpConnRec{ev: m.ev, client: clientAddr.String(), gate: m.gate}
}

type udpConnRec struct {
	ev     *events
	client string
	gate   *removeGate
}

func (m *udpConnRec) AddPacketFromClient(status string, clientProxyBytes, proxyTargetBytes int64) {
	m.ev.add(event{kind: "report", client: m.client, s: status, a: clientProxyBytes, b: proxyTargetBytes})
}
func (m *udpConnRec) AddPacketFromTarget(status string, targetProxyBytes, proxyClientBytes int64) {
	m.ev.add(event{kind: "fromtarget", client: m.client, s: status, a: targetProxyBytes, b: proxyClientBytes})
}
func (m *udpConnRec) RemoveNatEntry() {
	if m.gate.take() {
		m.gate.reached <- struct{}{}
		<-m.gate.release
	}
	m.ev.add(event{kind: "natremove", client: m.client})
}

type searchRec struct{ ev *events }

func (m *searchRec) AddCipherSearch(found bool, d time.Duration) {
	m.ev.add(event{kind: "search", flag: found})
}

// panicLogHandler turns "Panic ..." log records of the server into events.
type panicLogHandler struct{ ev **events }

func (h panicLogHandler) Enabled(context.Context, slog.Level) bool { return true }
func (h panicLogHandler) Handle(_ context.Context, r slog.Record) error {
	if strings.Contains(r.Message, "Panic") || strings.Contains(r.Message, "panic") {
		if *h.ev != nil {
			(*h.ev).add(event{kind: "panic", s: r.Message})
		}
	}
	return nil
}
func (h panicLogHandler) WithAttrs([]slog.Attr) slog.Handler { return h }
func (h panicLogHandler) WithGroup(string) slog.Handler      { return h }

var curEvents *events

// ---------------------------------------------------------------- configuration of a case

type cfgEntry struct {
	ref    int
	id     string
	cipher string // alias as configured
	secret string
	keyref int
}

type keyTable struct {
	keys  []*specKey // by keyref
	index map[string]int
}

func (kt *keyTable) ref(cipherName, secret string) int {
	c := specCipherByName(cipherName)
	k := c.name + "\x00" + secret
	if i, ok := kt.index[k]; ok {
		return i
	}
	kt.index[k] = len(kt.keys)
	kt.keys = append(kt.keys, newSpecKey(cipherName, secret))
	return len(kt.keys) - 1
}

var refCounter int

func genEntries(r *Rng, kt *keyTable, n int) []cfgEntry {
	secrets := []string{"s0", "secret-one", "Secret-Two", "x", "a much longer secret with spaces 0123456789"}
	var es []cfgEntry
	for i := 0; i < n; i++ {
		c := Pick(r, specCiphers[:])
		alias := Pick(r, cipherAliases[c.name])
		sec := Pick(r, secrets)
		if r.Chance(25) && len(es) > 0 { // duplicate (cipher, secret) under another id
			d := Pick(r, es)
			alias, sec = Pick(r, cipherAliases[specCipherByName(d.cipher).name]), d.secret
		}
		refCounter++
		id := fmt.Sprintf("key-%d", r.Intn(1000))
		if r.Chance(5) {
			id = ""
		}
		es = append(es, cfgEntry{ref: refCounter, id: id, cipher: alias, secret: sec, keyref: kt.ref(alias, sec)})
	}
	return es
}

func entriesField(es []cfgEntry, kt *keyTable) string {
	if len(es) == 0 {
		return "-"
	}
	var parts []string
	for _, e := range es {
		k := kt.keys[e.keyref]
		parts = append(parts, fmt.Sprintf("%d:%s:%d:%d:%d", e.ref, hexs([]byte(e.id)), e.keyref, k.c.saltSize, k.c.tagSize))
	}
	return strings.Join(parts, ",")
}

func makeCipherList(es []cfgEntry) (service.CipherList, error) {
	l := newList()
	for _, e := range es {
		ck, err := shadowsocks.NewEncryptionKey(e.cipher, e.secret)
		if err != nil {
			return nil, err
		}
		entry := service.MakeCipherEntry(e.id, ck, e.secret)
		l.PushBack(&entry)
	}
	cl := service.NewCipherList()
	cl.Update(l)
	return cl, nil
}

// ---------------------------------------------------------------- the engine

type udpCase struct {
	fd0 int // open descriptors when the case started
	out      *Out
	r        *Rng
	env      *netEnv
	kt       *keyTable
	entries  []cfgEntry
	conn     *scriptConn
	ev       *events
	sinkCh   chan sinkPkt
	sinks    []*udpSink
	allow    bool
	natPort  map[string]int    // live association: client -> source port seen by targets
	portLbl  map[int]string    // source port -> s<k>
	assocKey map[string]int    // live association: client -> keyref that created it
	writes   map[string][2]int // client -> (writes, dnsWrites)
	reads    map[string]int    // client -> datagrams read on its socket
	adds     int
	removes  int
	salts    map[string]bool
	ipIDs    map[string]int
	sums     map[string][4]int64 // keyid -> reported c>p, p>t, p<t, c<p
	obs      map[string][4]int64 // keyid -> observed on sockets
	idOf     map[string]string   // client -> key id given at natadd
	conn2    *scriptConn         // second listener served by the SAME handler (own NAT table)
	hook     *valHook
	timeout  time.Duration // NAT timeout of the handler of this case
	gate     *removeGate
	lifeMode bool            // natlife engine: timing scenarios instead of the random op mix
	lastDest map[string]dest // per client: destination of its previous well-formed datagram
}

// valHook lets the harness hold one datagram inside the target-IP validator (public API:
// SetTargetIPValidator) while another listener of the same handler processes a datagram.
type valHook struct {
	mu      sync.Mutex
	armed   bool
	reached chan struct{}
	release chan struct{}
}

func (h *valHook) take() bool {
	h.mu.Lock()
	defer h.mu.Unlock()
	a := h.armed
	h.armed = false
	return a
}

type pktOpts struct {
	conn       *scriptConn
	forceValid bool
	noDNS      bool           // destination port must not be the DNS port (whose timeout is the fixed 17 s)
	mid        func() []event // runs after the datagram was handed to the handler, before waiting for it
}

func (u *udpCase) clientIPID(a *net.UDPAddr) int {
	k := a.IP.String()
	if id, ok := u.ipIDs[k]; ok {
		return id
	}
	u.ipIDs[k] = len(u.ipIDs) + 1
	return u.ipIDs[k]
}

func isForbiddenDst(ip net.IP) bool {
	f, _ := specForbidden(canonIP(ip))
	return f
}

func udpEngine(rng *Rng, n int, out *Out, args map[string]string) {
	e := setupNet(args, out)
	slog.SetDefault(slog.New(panicLogHandler{ev: &curEvents}))
	sinkCh := make(chan sinkPkt, 4096)
	var sinks []*udpSink
	addSink := func(ip string, port int) {
		s, err := newUDPSink(ip, port, sinkCh)
		if err != nil {
			out.Note("sink %s:%d unavailable: %v", ip, port, err)
			return
		}
		sinks = append(sinks, s)
	}
	for _, ip := range append(append([]string{}, e.publicV4...), e.publicV6...) {
		addSink(ip, 9000)
		addSink(ip, 53)
	}
	for _, ip := range e.forbidden {
		addSink(ip, 9000)
		if ip == "10.1.2.3" { // not 127.0.0.1:53: the Go resolver of this very process may query it
			addSink(ip, 53)
		}
	}
	if e.linkLocal6 != "" {
		addSink(e.linkLocal6, 9000)
		addSink(e.linkLocal6, 53)
	}
	if e.linkLocal6Long != "" {
		addSink(e.linkLocal6Long, 9000)
	}
	out.Note("udp engine: netns=%v sinks=%d", e.netns, len(sinks))
	life := args["life"] == "1"
	for c := 0; c < n; c++ {
		u := &udpCase{out: out, r: rng.Fork(), env: e, sinkCh: sinkCh, sinks: sinks, lifeMode: life}
		if life {
			u.timeout = time.Duration(120+u.r.Intn(120)) * time.Millisecond
		}
		u.run(c)
	}
	for _, s := range sinks {
		s.conn.Close()
	}
}

func init() { engines["natlife"] = udpEngine }

// lifeScenario: timing-dependent behaviour of associations with a short NAT timeout.
//  1. keep-alive: a second datagram before the timeout must reuse the socket, and the association
//     must then live at least `timeout` after THAT datagram (checked at 1.5 timeouts after the first);
//  2. idle expiry: without traffic the association is removed within timeout + slack, exactly once;
//  3. teardown race: a datagram of the same client handled while the copier is in its teardown.
func (u *udpCase) lifeScenario(clients []*net.UDPAddr, unknown []*specKey) {
	T := u.timeout
	c := clients[0]
	cs := c.String()
	start := time.Now()
	u.opPkt(c, unknown, pktOpts{conn: u.conn, forceValid: true, noDNS: true})
	if _, ok := u.natPort[cs]; !ok {
		return
	}
	port0 := u.natPort[cs]
	rem0 := u.removes // if the association is reported removed meanwhile (a stalled machine), a successor on another socket is legitimate
	sleepUntil := func(t time.Time) { time.Sleep(time.Until(t)) }
	// 1. keep-alive at 0.6 T, then probe at 1.45 T (0.85 T after the second datagram)
	sleepUntil(start.Add(T * 6 / 10))
	u.flushAsync()
	second := time.Now()
	u.opPkt(c, unknown, pktOpts{conn: u.conn, forceValid: true, noDNS: true})
	if p, ok := u.natPort[cs]; !ok || p != port0 {
		// the keep-alive did not travel on the first association.  If it was handled well within the timeout of the first
		// datagram, the association died early; if this client was scheduled late (busy machine) and the timeout had
		// run out, the expiry was legitimate and the scenario is void — its later steps would compare against the wrong socket
		if handledBy := time.Since(start); handledBy < T-5*time.Millisecond {
			u.out.Oracle("C14", "association of %s did not survive %v after its first datagram (timeout %v)", cs, handledBy, T)
		} else {
			u.out.Stat("life.keepalive-came-late", 1)
		}
		return
	}
	sleepUntil(second.Add(T * 85 / 100))
	u.flushAsync()
	if p, ok := u.natPort[cs]; (!ok || p != port0) && time.Since(second) < T-3*time.Millisecond {
		u.out.Oracle("C14", "association of %s did not survive %v after its latest datagram (timeout %v)", cs, time.Since(second), T)
	}
	third := time.Now()
	u.opPkt(c, unknown, pktOpts{conn: u.conn, forceValid: true, noDNS: true})
	if p, ok := u.natPort[cs]; ok && p != port0 && u.removes == rem0 {
		u.out.Oracle("C04", "datagrams of %s left from two sockets while its association was alive", cs)
	}
	u.out.Stat("life.keepalive", 1)
	if u.r.Chance(50) {
		// 2. idle expiry within bounded time
		ok := u.ev.waitFor(func(e event) bool { return e.kind == "natremove" && e.client == cs }, T+1500*time.Millisecond)
		idle := time.Since(third)
		u.flushAsync()
		if !ok {
			u.out.Oracle("C14", "idle association of %s was not torn down within %v (timeout %v)", cs, idle, T)
		} else if idle < T-5*time.Millisecond {
			u.out.Oracle("C14", "association of %s was torn down %v after its latest datagram (timeout %v)", cs, idle, T)
		}
		u.out.Stat("life.idle-expiry", 1)
		return
	}
	// 3. teardown race
	u.gate.mu.Lock()
	u.gate.armed = true
	u.gate.mu.Unlock()
	select {
	case <-u.gate.reached:
	case <-time.After(T + 1500*time.Millisecond):
		u.gate.take()
		u.out.Oracle("C14", "idle association of %s was not torn down within bounded time (timeout %v)", cs, T)
		return
	}
	// the copier of cs is inside RemoveNatEntry: entry still in the table, socket still open
	u.opPkt(c, unknown, pktOpts{conn: u.conn, forceValid: true, noDNS: true})
	u.gate.release <- struct{}{}
	u.ev.waitFor(func(e event) bool { return e.kind == "natremove" && e.client == cs }, time.Second)
	time.Sleep(2 * time.Millisecond)
	u.flushAsync()
	// after the teardown a new datagram creates a fresh association on a new socket
	u.opPkt(c, unknown, pktOpts{conn: u.conn, forceValid: true, noDNS: true})
	u.out.Stat("life.teardown-race", 1)
}

func (u *udpCase) isPublicSink(s *udpSink) bool { return !isForbiddenDst(s.addr.IP) }

func (u *udpCase) run(caseNo int) {
	r, out := u.r, u.out
	runtime.GC() // descriptors of earlier cases that only a finalizer would close must not blur the count
	u.fd0 = countFDs()
	u.kt = &keyTable{index: map[string]int{}}
	u.ev = newEvents()
	curEvents = u.ev
	u.natPort, u.portLbl, u.assocKey = map[string]int{}, map[int]string{}, map[string]int{}
	u.writes, u.salts, u.ipIDs = map[string][2]int{}, map[string]bool{}, map[string]int{}
	u.reads = map[string]int{}
	u.lastDest = map[string]dest{}
	u.sums, u.obs, u.idOf = map[string][4]int64{}, map[string][4]int64{}, map[string]string{}
	u.entries = genEntries(r, u.kt, 1+r.Intn(6))
	// keys that exist but are not configured
	unknown := []*specKey{newSpecKey("aes-128-gcm", "not-configured"), newSpecKey("chacha20-ietf-poly1305", "nope")}
	u.allow = !u.env.netns || r.Chance(40)
	cl, err := makeCipherList(u.entries)
	if err != nil {
		out.Note("cipher list: %v", err)
		return
	}
	if u.timeout == 0 {
		u.timeout = time.Hour
	}
	u.gate = &removeGate{reached: make(chan struct{}, 1), release: make(chan struct{})}
	h := service.NewPacketHandler(u.timeout, cl, &udpMetricsRec{ev: u.ev, gate: u.gate}, &searchRec{ev: u.ev})
	u.hook = &valHook{reached: make(chan struct{}, 1), release: make(chan struct{})}
	allow := u.allow
	hook := u.hook
	h.SetTargetIPValidator(func(ip net.IP) error {
		if hook.take() {
			hook.reached <- struct{}{}
			<-hook.release
		}
		if allow {
			return nil
		}
		return onet.RequirePublicIP(ip)
	})
	u.conn = newScriptConn(u.ev)
	u.conn2 = newScriptConn(u.ev)
	done := make(chan struct{})
	done2 := make(chan struct{})
	go func() { h.Handle(u.conn); close(done) }()
	go func() { h.Handle(u.conn2); close(done2) }()
	<-u.conn.idle
	<-u.conn2.idle
	v := "validator=default"
	if u.allow {
		v = "validator=allow"
	}
	out.Op(fmt.Sprintf("udp keys %s %s", v, entriesField(u.entries, u.kt)), "ok")
	out.Stat("case.entries."+itoa(len(u.entries)), 1)
	out.Stat("case."+v, 1)

	clients := []*net.UDPAddr{}
	for i := 0; i < 1+r.Intn(4); i++ {
		ip := net.IPv4(198, 51, 100, byte(1+r.Intn(3))).To4()
		if r.Chance(20) {
			ip = net.ParseIP(fmt.Sprintf("2001:db8:1::%d", 1+r.Intn(3)))
		}
		clients = append(clients, &net.UDPAddr{IP: ip, Port: 40000 + r.Intn(4)})
	}
	if r.Chance(15) {
		// two hosts on different links with the same link-local address and port
		clients = append(clients, &net.UDPAddr{IP: net.ParseIP("fe80::77"), Port: 40000, Zone: "eth0"},
			&net.UDPAddr{IP: net.ParseIP("fe80::77"), Port: 40000, Zone: "eth1"})
		out.Stat("case.zoned-clients", 1)
	}
	if u.lifeMode {
		u.lifeScenario(clients, unknown)
		nopsLife := 0
		_ = nopsLife
	}
	nops := 6 + r.Intn(16)
	if u.lifeMode {
		nops = 0
	}
	for k := 0; k < nops; k++ {
		u.flushAsync()
		switch {
		case r.Chance(6):
			u.opInterleaved(unknown)
		case r.Chance(62) || len(u.natPort) == 0:
			u.opPkt(Pick(r, clients), unknown, pktOpts{conn: u.conn})
		case r.Chance(85):
			u.opReply()
		default:
			// replace the key list (keeps some entries' (cipher,secret), new element identities)
			var ne []cfgEntry
			for _, e := range u.entries {
				if r.Chance(70) {
					refCounter++
					e.ref = refCounter
					ne = append(ne, e)
				}
			}
			ne = append(ne, genEntries(r, u.kt, r.Intn(3))...)
			if len(ne) == 0 {
				ne = genEntries(r, u.kt, 1)
			}
			nl := newList()
			ok := true
			for _, e := range ne {
				ck, err := shadowsocks.NewEncryptionKey(e.cipher, e.secret)
				if err != nil {
					ok = false
					break
				}
				entry := service.MakeCipherEntry(e.id, ck, e.secret)
				nl.PushBack(&entry)
			}
			if ok {
				cl.Update(nl)
				u.entries = ne
				out.Op("udp update "+entriesField(ne, u.kt), "ok")
				out.Stat("op.update", 1)
			}
		}
	}
	// shutdown: closing the client conn ends Handle, natmap.Close expires every association
	u.flushAsync()
	u.conn.Close()
	u.conn2.Close()
	for _, d := range []chan struct{}{done, done2} {
		select {
		case <-d:
		case <-time.After(3 * time.Second):
			out.Oracle("C18", "packet handler did not return after its connection was closed")
		}
	}
	live := len(u.natPort)
	for dl := time.Now().Add(1500 * time.Millisecond); u.countRemoves() < live && time.Now().Before(dl); {
		time.Sleep(200 * time.Microsecond)
	}
	time.Sleep(2 * time.Millisecond)
	u.flushAsync()
	if len(u.natPort) != 0 {
		out.Oracle("C14", "after shutdown %d association(s) were never removed: %v", len(u.natPort), keysOf(u.natPort))
		out.Oracle("C16", "after shutdown %d association(s) were never reported removed: %v", len(u.natPort), keysOf(u.natPort))
	}
	// every outbound socket the handler opened for an association must be closed now (promptly: the
	// runtime's finalizer would eventually hide a forgotten Close)
	if u.fd0 > 0 {
		f1 := countFDs()
		for dl := time.Now().Add(500 * time.Millisecond); f1 > u.fd0 && time.Now().Before(dl); f1 = countFDs() {
			time.Sleep(2 * time.Millisecond)
		}
		if f1 > u.fd0 {
			out.Oracle("C14", "%d file descriptors before the case, %d after the handler shut down with %d association(s) alive at that time: their outbound sockets were not closed", u.fd0, f1, live)
			out.Oracle("C18", "%d file descriptors before the case, %d after the packet handler shut down", u.fd0, f1)
		}
	}
	// stray datagrams: anything a target received that no op accounted for
	stray := 0
	for {
		select {
		case p := <-u.sinkCh:
			stray++
			out.Oracle("C03", "unaccounted datagram of %d bytes received by %s from %v", len(p.data), p.sink.label, p.from)
			if !u.allow && isForbiddenDst(p.sink.addr.IP) {
				out.Oracle("C05", "forbidden destination %s received a datagram", p.sink.label)
			}
			continue
		default:
		}
		break
	}
	out.Op("udp end", fmt.Sprintf("live=%d stray=%d", u.adds-u.removes, stray))
	// C16: per key, reported sums equal what was seen on the sockets
	for id, s := range u.sums {
		o := u.obs[id]
		if s != o {
			out.Oracle("C16", "key %q: reported bytes [c>p p>t p<t c<p]=%v but observed on sockets %v", id, s, o)
		}
	}
}

func keysOf(m map[string]int) []string {
	var ks []string
	for k := range m {
		ks = append(ks, k)
	}
	sort.Strings(ks)
	return ks
}

func (u *udpCase) countRemoves() int {
	u.ev.mu.Lock()
	defer u.ev.mu.Unlock()
	n := 0
	for _, e := range u.ev.l {
		if e.kind == "natremove" {
			n++
		}
	}
	return n
}

// flushAsync turns asynchronous events (association removals, panics) into ops of their own.
func (u *udpCase) flushAsync() {
	for _, e := range u.ev.take() {
		u.handleAsync(e)
	}
}

func (u *udpCase) handleAsync(e event) {
	switch e.kind {
	case "natremove":
		port, ok := u.natPort[e.client]
		lbl := "s?"
		if ok {
			lbl = u.portLbl[port]
		} else {
			u.out.Oracle("C14", "RemoveNatEntry reported for %s which has no live association (removed twice?)", e.client)
		}
		u.removes++
		delete(u.natPort, e.client)
		delete(u.assocKey, e.client)
		delete(u.writes, e.client)
		delete(u.reads, e.client)
		u.out.Op("udp expire c="+e.client, fmt.Sprintf("natremove=%s,%s", e.client, lbl))
		u.out.Stat("op.expire", 1)
	case "panic":
		u.out.Oracle("C18", "server recovered from a panic: %s", e.s)
	default:
		u.out.Oracle("C16", "unexpected asynchronous event %s for %s", e.kind, e.client)
	}
}

type dest struct {
	sink   *udpSink
	header []byte // SOCKS address bytes
	host   string // for type 3
	kind   string
}

func socksV4(ip net.IP, port int) []byte {
	return append(append([]byte{1}, ip.To4()...), byte(port>>8), byte(port))
}
func socksV6(ip net.IP, port int) []byte {
	return append(append([]byte{4}, ip.To16()...), byte(port>>8), byte(port))
}
func socksDomain(h string, port int) []byte {
	return append(append([]byte{3, byte(len(h))}, h...), byte(port>>8), byte(port))
}

func (u *udpCase) pickDest() dest {
	r := u.r
	var cand []*udpSink
	for _, s := range u.sinks {
		if s.addr.Zone != "" {
			continue
		}
		cand = append(cand, s)
	}
	s := Pick(r, cand)
	// bias towards public sinks (they are what produces associations under the default policy)
	if r.Chance(60) {
		var pub []*udpSink
		for _, c := range cand {
			if u.isPublicSink(c) {
				pub = append(pub, c)
			}
		}
		if len(pub) > 0 {
			s = Pick(r, pub)
		}
	}
	port := s.addr.Port
	is4 := s.addr.IP.To4() != nil
	switch {
	case r.Chance(5) && u.isPublicSink(s):
		// a destination the policy accepts but the operating system refuses to send to (port 0:
		// EINVAL): the association is created and armed all the same, the datagram is reported
		// ERR_WRITE with nothing sent
		if is4 {
			return dest{header: socksV4(s.addr.IP, 0), kind: "port0"}
		}
		return dest{header: socksV6(s.addr.IP, 0), kind: "port0"}
	case r.Chance(15):
		return dest{sink: s, header: socksDomain(s.addr.IP.String(), port), host: s.addr.IP.String(), kind: "domain-literal"}
	case r.Chance(8) && is4:
		m := append(append([]byte{4}, make([]byte, 10)...), 0xff, 0xff)
		m = append(m, s.addr.IP.To4()...)
		return dest{sink: s, header: append(m, byte(port>>8), byte(port)), kind: "v4-mapped"}
	case is4:
		return dest{sink: s, header: socksV4(s.addr.IP, port), kind: "v4"}
	default:
		return dest{sink: s, header: socksV6(s.addr.IP, port), kind: "v6"}
	}
}

func parseSocks(b []byte) (kind byte, host string, port int, n int, ok bool) {
	if len(b) < 1 {
		return
	}
	switch b[0] {
	case 1:
		n = 7
	case 4:
		n = 19
	case 3:
		if len(b) < 2 {
			return
		}
		n = 2 + int(b[1]) + 2
	default:
		return
	}
	if len(b) < n {
		return 0, "", 0, 0, false
	}
	port = int(b[n-2])<<8 | int(b[n-1])
	switch b[0] {
	case 1:
		host = net.IP(b[1:5]).String()
	case 4:
		host = net.IP(b[1:17]).String()
	case 3:
		host = string(b[2 : n-2])
	}
	return b[0], host, port, n, true
}

// opInterleaved: a first datagram of a new client on listener 1 is held inside the validator (after
// decryption, before it is forwarded) while a first datagram of another new client goes through
// listener 2 of the same handler.  Listeners own their NAT tables but share handler and key list.
func (u *udpCase) opInterleaved(unknown []*specKey) {
	r := u.r
	a := &net.UDPAddr{IP: net.IPv4(198, 51, 100, 60).To4(), Port: 41000 + r.Intn(20000)}
	b := &net.UDPAddr{IP: net.IPv4(198, 51, 100, 61).To4(), Port: 41000 + r.Intn(20000)}
	if _, ok := u.natPort[a.String()]; ok {
		return
	}
	u.hook.mu.Lock()
	u.hook.armed = true
	u.hook.mu.Unlock()
	u.out.Stat("op.interleaved", 1)
	u.opPkt(a, unknown, pktOpts{conn: u.conn, forceValid: true, mid: func() []event {
		select {
		case <-u.hook.reached:
		case <-time.After(2 * time.Second):
			u.hook.take()
			return nil
		}
		pre := u.ev.take()
		u.out.Op("udp conn 2", "ok")
		u.opPkt(b, unknown, pktOpts{conn: u.conn2, forceValid: true})
		u.out.Op("udp conn 1", "ok")
		u.hook.release <- struct{}{}
		return pre
	}})
}

func (u *udpCase) opPkt(client *net.UDPAddr, unknown []*specKey, opts pktOpts) {
	r, out := u.r, u.out
	cs := client.String()
	_, hasAssoc := u.natPort[cs]
	// ---- choose what to send
	var wire, plain []byte
	var d dest
	kind := "valid"
	var usedKey *specKey
	usedRef := -1
	mkPayload := func() []byte {
		switch r.Intn(10) {
		case 0:
			return nil
		case 1:
			return r.Bytes(1)
		case 2:
			return r.Bytes(1400)
		case 3:
			if r.Chance(30) {
				return r.Bytes(65400 + r.Intn(80))
			}
			return r.Bytes(9000)
		default:
			return r.Bytes(1 + r.Intn(200))
		}
	}
	pickCfg := func() cfgEntry { return Pick(r, u.entries) }
	ce := pickCfg()
	if hasAssoc && r.Chance(70) {
		// usually the key of the association
		for _, e := range u.entries {
			if e.keyref == u.assocKey[cs] {
				ce = e
			}
		}
		if ce.keyref != u.assocKey[cs] && r.Chance(50) {
			// association key no longer configured: still use it
			ce = cfgEntry{keyref: u.assocKey[cs]}
		}
	}
	if hasAssoc && opts.forceValid {
		ce = cfgEntry{keyref: u.assocKey[cs]}
	}
	usedKey, usedRef = u.kt.keys[ce.keyref], ce.keyref
	roll := r.Intn(100)
	if opts.forceValid {
		roll = 0
	}
	switch {
	case roll < 62:
		d = u.pickDest()
		if ld, ok := u.lastDest[cs]; ok && !opts.forceValid && r.Chance(35) {
			d = ld // same destination again (a flow): policy must be applied to every datagram
		}
		u.lastDest[cs] = d
		if opts.forceValid {
			for i := 0; i < 50 && (d.kind == "domain-literal" || d.kind == "port0" || (!u.allow && !u.isPublicSink(d.sink)) || (opts.noDNS && d.sink.addr.Port == 53)); i++ {
				d = u.pickDest()
			}
		}
		plain = append(append([]byte{}, d.header...), mkPayload()...)
		if opts.forceValid {
			plain = append(append([]byte{}, d.header...), r.Bytes(20+r.Intn(100))...)
		}
	case roll < 68: // special hosts
		kind = "special-host"
		hosts := []string{"localhost", "nonexistent.invalid", "fe80::5%lo", "256.1.1.1", strings.Repeat("a", 255), "127.0.0.1", "::ffff:10.1.2.3"}
		if !u.allow {
			// the empty host resolves to a nil IP; where the kernel would send such a datagram is not
			// the server's business, so it is only generated where the policy must refuse it
			hosts = append(hosts, "", "")
		}
		host := Pick(r, hosts)
		d = dest{header: socksDomain(host, 9000), host: host, kind: "domain-special"}
		plain = append(append([]byte{}, d.header...), mkPayload()...)
	case roll < 76: // malformed plaintext
		kind = "malformed-plaintext"
		switch r.Intn(5) {
		case 0:
			plain = nil
		case 1:
			plain = []byte{byte(Pick(r, []int{0, 2, 5, 6, 255}))}
			plain = append(plain, r.Bytes(r.Intn(30))...)
		case 2:
			plain = []byte{3}
		case 3:
			plain = append([]byte{3, 200}, r.Bytes(r.Intn(150))...)
		default:
			full := socksV6(net.ParseIP("2001:db8::10"), 9000)
			plain = full[:1+r.Intn(len(full)-1)]
		}
	case roll < 84: // key that is not configured
		kind = "unknown-key"
		usedKey, usedRef = Pick(r, unknown), -1
		d = u.pickDest()
		plain = append(append([]byte{}, d.header...), mkPayload()...)
	default:
		kind = "garbage"
	}
	if kind == "garbage" {
		switch r.Intn(4) {
		case 0:
			wire = r.Bytes(r.Intn(60))
		case 1:
			wire = nil
		case 2:
			wire = r.Bytes(100 + r.Intn(2000))
		default: // valid datagram, then truncated or bit-flipped
			d2 := u.pickDest()
			w := usedKey.packUDP(r.Bytes(usedKey.c.saltSize), append(append([]byte{}, d2.header...), r.Bytes(40)...))
			if r.Bool() {
				wire = w[:r.Intn(len(w))]
			} else {
				w[r.Intn(len(w))] ^= 1 << uint(r.Intn(8))
				wire = w
			}
		}
		usedRef = -1
	} else {
		wire = usedKey.packUDP(r.Bytes(usedKey.c.saltSize), plain)
		if len(wire) > 65536 {
			wire = wire[:65536]
		}
	}
	// ---- spec-level facts about the datagram: which configured keys open it, and the plaintext
	var opens []int
	seen := map[int]bool{}
	var specPlain []byte
	for _, e := range u.entries {
		if seen[e.keyref] {
			continue
		}
		seen[e.keyref] = true
		if p, err := u.kt.keys[e.keyref].openUDP(wire); err == nil {
			opens = append(opens, e.keyref)
			specPlain = p
		}
	}
	if hasAssoc && !seen[u.assocKey[cs]] {
		if p, err := u.kt.keys[u.assocKey[cs]].openUDP(wire); err == nil {
			opens = append(opens, u.assocKey[cs])
			specPlain = p
		}
	}
	res := "-"
	if t, host, port, _, ok := parseSocks(specPlain); ok && t == 3 {
		ua, err := net.ResolveUDPAddr("udp", net.JoinHostPort(host, itoa(port)))
		switch {
		case err != nil:
			res = "fail"
		case len(ua.IP) == 0:
			res = "nil"
		default:
			res = hexs(canonIP(ua.IP))
		}
	}
	sort.Ints(opens)
	op := fmt.Sprintf("udp pkt c=%s ip=%d wire=%d opens=%s plain=%s res=%s", cs, u.clientIPID(client), min(len(wire), 65536),
		intsField(opens), hexs(specPlain), res)
	if d.kind == "port0" {
		op += " sendfails=1"
	}
	fmt.Fprintf(os.Stderr, "#intent %s\n", op[:min(len(op), 200)])
	// ---- feed it and collect what happened
	opts.conn.in <- scriptPkt{data: wire, addr: client}
	var pre []event
	if opts.mid != nil {
		pre = opts.mid()
	}
	select {
	case <-opts.conn.idle:
	case <-time.After(5 * time.Second):
		out.Oracle("C18", "packet handler stopped reading after a datagram (%s)", kind)
	}
	evs := append(pre, u.ev.take()...)
	var parts []string
	reportedOK := false
	var natadd *event
	for i := range evs {
		e := evs[i]
		switch e.kind {
		case "search":
			parts = append(parts, fmt.Sprintf("search=%v", e.flag))
		case "natadd":
			natadd = &evs[i]
		case "report":
			if e.s == "OK" {
				reportedOK = true
			}
		}
	}
	// An association of this client that expired just before this datagram was handled is reported
	// removed BEFORE the new one is reported added: account for the removal first, so that the
	// successor is not mistaken for it (a busy machine makes this window wide).
	if natadd != nil {
		kept := evs[:0:0]
		seenAdd := false
		for _, e := range evs {
			if e.kind == "natadd" {
				seenAdd = true
			}
			if e.kind == "natremove" && !seenAdd {
				u.handleAsync(e)
				continue
			}
			kept = append(kept, e)
		}
		evs = kept
		for i := range evs {
			if evs[i].kind == "natadd" {
				natadd = &evs[i]
			}
		}
		_, hasAssoc = u.natPort[cs]
	}
	// a reported OK means a datagram left for a target: wait for it
	var got []sinkPkt
	if reportedOK || natadd != nil {
		select {
		case p := <-u.sinkCh:
			got = append(got, p)
		case <-time.After(1500 * time.Millisecond):
		}
	}
	for more := true; more; {
		select {
		case p := <-u.sinkCh:
			got = append(got, p)
		default:
			more = false
		}
	}
	if natadd != nil {
		u.adds++
		lbl := "s?"
		if len(got) > 0 {
			port := got[0].from.Port
			if _, dup := u.portLbl[port]; dup {
				for c, p := range u.natPort {
					if p == port {
						out.Oracle("C04", "new association of %s uses source port %d, which is the live socket of %s", cs, port, c)
					}
				}
			}
			lbl = fmt.Sprintf("s%d", u.adds-1)
			u.portLbl[port] = lbl
			u.natPort[cs] = port
		} else {
			u.natPort[cs] = -u.adds
			u.portLbl[-u.adds] = fmt.Sprintf("s%d", u.adds-1)
			lbl = u.portLbl[-u.adds]
		}
		u.assocKey[cs] = usedRef
		u.idOf[cs] = natadd.s
		parts = append(parts, fmt.Sprintf("natadd=%s,%s", hexs([]byte(natadd.s)), lbl))
		// oracle: created only by an authenticated datagram, attributed to an id configured with that key
		okID := false
		for _, e := range u.entries {
			if e.keyref == usedRef && e.id == natadd.s {
				okID = true
			}
		}
		if usedRef < 0 || !okID {
			out.Oracle("C03", "association for %s created with id %q by a datagram (%s) not encrypted under a key configured with that id", cs, natadd.s, kind)
		}
		if hasAssoc {
			out.Oracle("C04", "second association created for %s while one was alive", cs)
		}
	}
	// a client address without a live association (the zone of a scoped address is part of the
	// address) must get its own association: its datagram must neither travel on another client's
	// socket nor be judged under another client's key
	if !hasAssoc && natadd == nil {
		for _, p := range got {
			for c, port := range u.natPort {
				if port == p.from.Port && c != cs {
					out.Oracle("C04", "datagram of %s, which has no association, left from the socket of %s", cs, c)
				}
			}
		}
		if len(opens) > 0 && len(got) == 0 {
			for _, e := range evs {
				if e.kind == "search" && !e.flag {
					out.Oracle("C04", "datagram of the new client %s opens under a configured key but was judged as if it belonged to another client's association (no key search among the configured keys succeeded)", cs)
				}
			}
		}
	}
	for _, p := range got {
		// an association whose first datagram never left (refused send) has no known source port
		// yet: the first datagram that does leave reveals it
		if ph, ok := u.natPort[cs]; ok && ph < 0 {
			if _, taken := u.portLbl[p.from.Port]; !taken {
				u.portLbl[p.from.Port] = u.portLbl[ph]
				u.natPort[cs] = p.from.Port
			}
		}
		lbl, known := u.portLbl[p.from.Port]
		if !known {
			lbl = "s?"
		}
		parts = append(parts, fmt.Sprintf("send=%s,%s,%d,%s", lbl, hexs(canonIP(p.sink.addr.IP)), p.sink.addr.Port, fnvDigest(p.data)))
		// ---- oracles on what the target saw
		if usedRef < 0 || kind == "garbage" || kind == "unknown-key" {
			out.Oracle("C03", "a %s datagram from %s caused outbound traffic to %s", kind, cs, p.sink.label)
		}
		if hasAssoc && usedRef != u.assocKey[cs] && natadd == nil {
			out.Oracle("C03", "datagram under key #%d was forwarded on the association of %s opened with key #%d", usedRef, cs, u.assocKey[cs])
		}
		if !u.allow && isForbiddenDst(p.sink.addr.IP) {
			out.Oracle("C05", "forbidden destination %s received a datagram (client %s, dest kind %s)", p.sink.label, cs, d.kind)
		}
		if d.sink != nil {
			_, _, _, hl, _ := parseSocks(plain)
			if p.sink != d.sink || !bytes.Equal(p.data, plain[hl:]) {
				out.Oracle("C03", "target %s received %s but the client sent %s to %s", p.sink.label, fnvDigest(p.data), fnvDigest(plain[hl:]), d.sink.label)
			}
		}
		if port, ok := u.natPort[cs]; ok && port != p.from.Port {
			out.Oracle("C04", "datagram of %s left from port %d but its association uses port %d", cs, p.from.Port, port)
		}
		w := u.writes[cs]
		w[0]++
		if p.sink.addr.Port == 53 {
			w[1]++
		}
		u.writes[cs] = w
		o := u.obs[u.idOf[cs]]
		o[1] += int64(len(p.data))
		u.obs[u.idOf[cs]] = o
	}
	if len(got) > 1 {
		out.Oracle("C03", "one client datagram produced %d outbound datagrams", len(got))
	}
	for _, e := range evs {
		switch e.kind {
		case "report":
			parts = append(parts, fmt.Sprintf("report=%s,%d,%d", e.s, e.a, e.b))
			s := u.sums[u.idOf[e.client]]
			s[0] += e.a
			s[1] += e.b
			u.sums[u.idOf[e.client]] = s
			o := u.obs[u.idOf[e.client]]
			o[0] += int64(min(len(wire), 65536))
			u.obs[u.idOf[e.client]] = o
			if e.client != cs {
				out.Oracle("C16", "datagram of %s reported on the association of %s", cs, e.client)
			}
			if e.s == "ERR_WRITE" {
				// the send was attempted and refused by the kernel (port 0): for the association this IS a client
				// datagram on it (the deadline logic ran), so "its only traffic was one DNS query" no longer holds
				w := u.writes[cs]
				w[0]++
				u.writes[cs] = w
			}
		case "search", "natadd":
		default:
			u.handleAsync(e)
		}
	}
	// public destination refused under the default policy?
	if !u.allow && d.sink != nil && kind == "valid" && u.isPublicSink(d.sink) && len(got) == 0 && (!hasAssoc || usedRef == u.assocKey[cs]) && containsInt(opens, usedRef) {
		out.Oracle("C05", "datagram for public destination %s (%s) was not forwarded", d.sink.label, d.kind)
	}
	if len(parts) == 0 {
		parts = []string{"none"}
	}
	out.Op(op, strings.Join(parts, " "))
	out.Stat("op.pkt."+kind, 1)
	if d.kind != "" {
		out.Stat("dest."+d.kind, 1)
	}
	if hasAssoc {
		out.Stat("pkt.on-association", 1)
	}
}

func containsInt(l []int, x int) bool {
	for _, y := range l {
		if x == y {
			return true
		}
	}
	return false
}

func intsField(l []int) string {
	if len(l) == 0 {
		return "-"
	}
	var s []string
	for _, x := range l {
		s = append(s, itoa(x))
	}
	return strings.Join(s, ",")
}

// opReply: some target sends a datagram to the outbound socket of a live association.
func (u *udpCase) opReply() {
	r, out := u.r, u.out
	clients := keysOf(u.natPort)
	cs := Pick(r, clients)
	port := u.natPort[cs]
	if port <= 0 {
		return
	}
	// any sink may reply, contacted or not; zoned link-local sources included
	s := Pick(r, u.sinks)
	var body []byte
	switch r.Intn(8) {
	case 0:
		body = nil
	case 1:
		body = r.Bytes(65507 - r.Intn(60)) // around the buffer limit
	case 2:
		body = r.Bytes(1400)
	default:
		body = r.Bytes(1 + r.Intn(300))
	}
	dst := &net.UDPAddr{IP: s.addr.IP, Port: port, Zone: s.addr.Zone}
	if s.addr.IP.To4() == nil && len(body) > 65000 {
		body = body[:65000]
	}
	key := u.kt.keys[u.assocKey[cs]]
	readCap := 65536 - (key.c.saltSize + 19)
	readBody := body
	if len(readBody) > readCap {
		readBody = readBody[:readCap]
	}
	op := fmt.Sprintf("udp reply c=%s src=%s port=%d body=%s", cs, hexs(canonIP(s.addr.IP)), s.addr.Port, hexs(readBody))
	fmt.Fprintf(os.Stderr, "#intent udp reply c=%s src=%v bodylen=%d\n", cs, s.addr, len(body))
	if _, err := s.conn.WriteToUDP(body, dst); err != nil {
		out.Note("reply write failed: %v", err)
		return
	}
	ok := u.ev.waitFor(func(e event) bool { return e.kind == "fromtarget" && e.client == cs }, 2*time.Second)
	if !ok {
		out.Oracle("C16", "a datagram sent to the outbound socket of %s was never reported (AddPacketFromTarget)", cs)
	}
	// fast close: exactly one write so far, it went to port 53, reply comes from port 53
	w := u.writes[cs]
	expectClose := w[0] == 1 && w[1] == 1 && s.addr.Port == 53
	if expectClose {
		u.ev.waitFor(func(e event) bool { return e.kind == "natremove" && e.client == cs }, 1500*time.Millisecond)
	} else {
		time.Sleep(300 * time.Microsecond)
	}
	evs := u.ev.take()
	var parts []string
	var later []event
	for _, e := range evs {
		switch e.kind {
		case "toclient":
			if e.client != cs {
				out.Oracle("C04", "reply on the socket of %s was delivered to %s", cs, e.client)
			}
			pt, err := key.openUDP(e.data)
			if err != nil {
				out.Oracle("C03", "reply relayed to %s does not open under the key of its association", cs)
				parts = append(parts, fmt.Sprintf("toclient=%s,undecryptable,%d", e.client, len(e.data)))
				continue
			}
			_, _, _, hl, okp := parseSocks(pt)
			if !okp {
				out.Oracle("C03", "reply relayed to %s carries no parsable source address", cs)
				hl = 0
			}
			parts = append(parts, fmt.Sprintf("toclient=%s,%s,%s,%d", e.client, hexs(pt[:hl]), fnvDigest(pt[hl:]), len(e.data)))
			want := socksV4(s.addr.IP, s.addr.Port)
			if s.addr.IP.To4() == nil {
				want = socksV6(s.addr.IP, s.addr.Port)
			}
			if !bytes.Equal(pt[:hl], want) || !bytes.Equal(pt[hl:], body) {
				out.Oracle("C03", "reply from %s relayed to %s with address %s / body %s, expected %s / %s", s.label, cs, hexs(pt[:hl]), fnvDigest(pt[hl:]), hexs(want), fnvDigest(body))
			}
			salt := string(e.data[:key.c.saltSize])
			if u.salts[salt] {
				out.Oracle("C03", "reply salt reused")
			}
			u.salts[salt] = true
			o := u.obs[u.idOf[cs]]
			o[3] += int64(len(e.data))
			u.obs[u.idOf[cs]] = o
		case "fromtarget":
			parts = append(parts, fmt.Sprintf("fromtarget=%s,%d,%d", e.s, e.a, e.b))
			sm := u.sums[u.idOf[e.client]]
			sm[2] += e.a
			sm[3] += e.b
			u.sums[u.idOf[e.client]] = sm
			o := u.obs[u.idOf[cs]]
			o[2] += int64(len(readBody))
			u.obs[u.idOf[cs]] = o
		default:
			later = append(later, e)
		}
	}
	if len(parts) == 0 {
		parts = []string{"none"}
	}
	firstRead := u.reads[cs] == 0
	u.reads[cs]++
	removed := false
	for _, e := range later {
		if e.kind == "natremove" && e.client == cs && !removed {
			removed = true
			parts = append(parts, fmt.Sprintf("natremove=%s,%s", cs, u.portLbl[u.natPort[cs]]))
			u.removes++
			delete(u.natPort, cs)
			delete(u.assocKey, cs)
			delete(u.writes, cs)
			delete(u.reads, cs)
			continue
		}
		u.handleAsync(e)
	}
	out.Op(op, strings.Join(parts, " "))
	out.Stat("op.reply", 1)
	if s.addr.Zone != "" {
		out.Stat("reply.zoned-source", 1)
	}
	if len(body) > readCap {
		out.Stat("reply.truncated-read", 1)
	}
	// C14 oracle, only where the statement is unambiguous: the association's only traffic was one
	// DNS query and this is the first datagram coming back, from a DNS port => it must close now;
	// a non-DNS or second client datagram happened, or the reply is not from a DNS port => it must not.
	if expectClose && firstRead && !removed {
		out.Oracle("C14", "association of %s (one DNS query, first response from port 53) was not closed after the response", cs)
	}
	if removed && (w[0] != 1 || w[1] != 1 || s.addr.Port != 53) {
		out.Oracle("C14", "association of %s was closed after a response although fast close does not apply (writes=%d dnsWrites=%d replyPort=%d)", cs, w[0], w[1], s.addr.Port)
	}
	if removed {
		out.Stat("reply.fastclose", 1)
	}
}
