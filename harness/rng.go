package main

import "os"

// SplitMix64: every random choice of a campaign derives from one state, so a run replays exactly.
type Rng struct{ s uint64 }

// The seed is scrambled first: with a plain affine start, seed k+1 would replay seed k's stream one
// draw later, and sweeps over consecutive seeds would explore almost the same cases.
func NewRng(seed uint64) *Rng {
	if os.Getenv("VERIF_OLDRNG") != "" {
		return &Rng{s: seed*0x9E3779B97F4A7C15 + 0x1234567}
	}
	r := &Rng{s: seed ^ 0x1234567}
	r.s = r.U64() * 0xD6E8FEB86659FD93
	return r
}
func (r *Rng) U64() uint64 {
	r.s += 0x9E3779B97F4A7C15
	z := r.s
	z = (z ^ (z >> 30)) * 0xBF58476D1CE4E5B9
	z = (z ^ (z >> 27)) * 0x94D049BB133111EB
	return z ^ (z >> 31)
}
func (r *Rng) Intn(n int) int {
	if n <= 0 {
		return 0
	}
	return int(r.U64() % uint64(n))
}
func (r *Rng) Bool() bool        { return r.U64()&1 == 1 }
func (r *Rng) Chance(p int) bool { return r.Intn(100) < p }
func (r *Rng) Bytes(n int) []byte {
	b := make([]byte, n)
	for i := range b {
		b[i] = byte(r.U64())
	}
	return b
}
func (r *Rng) Fork() *Rng          { return &Rng{s: r.U64()} }
func Pick[T any](r *Rng, xs []T) T { return xs[r.Intn(len(xs))] }

func hexs(b []byte) string {
	if len(b) == 0 {
		return "-"
	}
	const d = "0123456789abcdef"
	o := make([]byte, 2*len(b))
	for i, x := range b {
		o[2*i] = d[x>>4]
		o[2*i+1] = d[x&15]
	}
	return string(o)
}
