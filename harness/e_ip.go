package main

import (
	"encoding/binary"
	"errors"
	"fmt"
	"net"

	onet "github.com/Jigsaw-Code/outline-ss-server/net"
)

// Engine "ip": onet.RequirePublicIP / IsPrivateAddress / net.IP.IsGlobalUnicast on byte strings.
// Oracle (C05), independent of the model: the special-purpose blocks of the statement written as
// numeric ranges; a forbidden address must be refused, an address outside every listed block must
// be accepted.
func init() { engines["ip"] = ipEngine }

type rng32 struct{ lo, hi uint32 }

var forbidden4 = []rng32{
	{0x7f000000, 0x7fffffff}, // loopback
	{0x00000000, 0x00000000}, // unspecified
	{0xa9fe0000, 0xa9feffff}, // link-local
	{0xe0000000, 0xefffffff}, // multicast
	{0xffffffff, 0xffffffff}, // broadcast
	{0x0a000000, 0x0affffff}, // RFC1918
	{0xac100000, 0xac1fffff},
	{0xc0a80000, 0xc0a8ffff},
	{0x64400000, 0x647fffff}, // CGNAT
}

func specForbidden(ip []byte) (forbidden bool, defined bool) {
	isMapped := func(b []byte) bool {
		for i := 0; i < 10; i++ {
			if b[i] != 0 {
				return false
			}
		}
		return b[10] == 0xff && b[11] == 0xff
	}
	switch {
	case len(ip) == 4 || (len(ip) == 16 && isMapped(ip)):
		v := binary.BigEndian.Uint32(ip[len(ip)-4:])
		for _, r := range forbidden4 {
			if r.lo <= v && v <= r.hi {
				return true, true
			}
		}
		return false, true
	case len(ip) == 16:
		allZero := true
		for _, b := range ip[:15] {
			if b != 0 {
				allZero = false
			}
		}
		if allZero && (ip[15] == 0 || ip[15] == 1) {
			return true, true
		}
		if ip[0] == 0xff || (ip[0] == 0xfe && ip[1]&0xc0 == 0x80) || ip[0]&0xfe == 0xfc {
			return true, true
		}
		return false, true
	}
	return true, true // not an IP at all: must be refused
}

func rpStatus(ip []byte) string {
	err := onet.RequirePublicIP(net.IP(ip))
	if err == nil {
		return "ok"
	}
	var ce *onet.ConnectionError
	if errors.As(err, &ce) {
		return ce.Status
	}
	return "other-error"
}

func ipEngine(rng *Rng, n int, out *Out, args map[string]string) {
	emit := func(ip []byte, class string) {
		st := rpStatus(ip)
		forb, _ := specForbidden(ip)
		if forb && st == "ok" {
			out.Oracle("C05", "forbidden destination accepted by RequirePublicIP: %s (%v)", hexs(ip), net.IP(ip))
		}
		if !forb && st != "ok" {
			out.Oracle("C05", "public destination rejected by RequirePublicIP: %s (%v) status=%s", hexs(ip), net.IP(ip), st)
		}
		out.Op("ip rp "+hexs(ip), st)
		out.Stat("class."+class, 1)
		out.Stat("status."+st, 1)
	}
	v4 := func(v uint32) []byte { b := make([]byte, 4); binary.BigEndian.PutUint32(b, v); return b }
	mapped := func(v uint32) []byte {
		b := make([]byte, 16)
		b[10], b[11] = 0xff, 0xff
		binary.BigEndian.PutUint32(b[12:], v)
		return b
	}
	// 1. every block boundary ±1, both encodings
	for _, r := range forbidden4 {
		for _, v := range []uint32{r.lo - 1, r.lo, r.lo + 1, r.hi - 1, r.hi, r.hi + 1, r.lo + (r.hi-r.lo)/2} {
			emit(v4(v), "v4-boundary")
			emit(mapped(v), "mapped-boundary")
		}
	}
	// 2. a representative of every /8, and of every /16 inside the partially forbidden /8s
	for a := 0; a < 256; a++ {
		emit(v4(uint32(a)<<24|uint32(rng.Intn(1<<24))), "v4-slash8")
	}
	for _, a := range []uint32{100, 169, 172, 192} {
		for b := uint32(0); b < 256; b++ {
			emit(v4(a<<24|b<<16|uint32(rng.Intn(1<<16))), "v4-slash16")
		}
	}
	// 3. IPv6 prefix classes: every first byte, fe80::/10 and fc00::/7 neighbourhoods, near-zero
	for b0 := 0; b0 < 256; b0++ {
		ip := rng.Bytes(16)
		ip[0] = byte(b0)
		emit(ip, "v6-firstbyte")
	}
	for b1 := 0; b1 < 256; b1 += 1 {
		ip := rng.Bytes(16)
		ip[0], ip[1] = 0xfe, byte(b1)
		emit(ip, "v6-fe")
	}
	for last := 0; last < 4; last++ {
		ip := make([]byte, 16)
		ip[15] = byte(last)
		emit(ip, "v6-nearzero")
		ip2 := make([]byte, 16)
		ip2[14] = byte(last)
		emit(ip2, "v6-nearzero")
	}
	// almost-mapped forms (one prefix byte off): must be treated as plain IPv6
	for i := 0; i < 12; i++ {
		ip := mapped(0x7f000001)
		ip[i] ^= 1 << uint(rng.Intn(8))
		emit(ip, "v6-almost-mapped")
	}
	// 4. not an IP: nil and odd lengths
	for _, l := range []int{0, 1, 2, 3, 5, 8, 15, 17, 20, 32} {
		emit(rng.Bytes(l), "odd-length")
	}
	// 5. random
	for i := 0; i < n; i++ {
		switch rng.Intn(4) {
		case 0:
			emit(rng.Bytes(4), "v4-random")
		case 1:
			emit(mapped(uint32(rng.U64())), "mapped-random")
		case 2:
			emit(rng.Bytes(16), "v6-random")
		default:
			// random address inside / next to a random forbidden block
			r := Pick(rng, forbidden4)
			span := r.hi - r.lo
			v := r.lo + uint32(rng.U64()%uint64(uint64(span)+1))
			if rng.Chance(30) {
				v = r.hi + 1 + uint32(rng.Intn(1000))
			}
			emit(v4(v), "v4-near-block")
		}
	}
	// IsPrivateAddress and IsGlobalUnicast separately on a sample
	for i := 0; i < n/4+50; i++ {
		var ip []byte
		if rng.Bool() {
			ip = rng.Bytes(4)
			if rng.Bool() {
				ip[0] = Pick(rng, []byte{10, 100, 172, 192, 127, 169, 224, 255, 0})
			}
		} else {
			ip = rng.Bytes(16)
			if rng.Bool() {
				ip[0] = Pick(rng, []byte{0xfc, 0xfd, 0xfe, 0xff, 0})
			}
		}
		out.Op("ip priv "+hexs(ip), fmt.Sprint(onet.IsPrivateAddress(net.IP(ip))))
		out.Op("ip global "+hexs(ip), fmt.Sprint(net.IP(ip).IsGlobalUnicast()))
	}
}
