package main

import (
	"fmt"

	"github.com/Jigsaw-Code/outline-ss-server/service"
)

// Engine "replay": histories of Add/Resize on the real ReplayCache (public API only).
// Oracle (C07), independent of the model: a sliding-window reference over the call history.
//   - window: an Add of an (id,salt) pair that was Added before with fewer than N Adds in between,
//     where N>0 is the minimum capacity in effect from the earlier Add to now, must return false;
//   - spurious: an Add that returns false must share its 32-bit XOR-fold checksum (recomputed here
//     from the documented definition) with some earlier Add of this cache.
func init() { engines["replay"] = replayEngine }

func xorFold(id string, salt []byte) uint32 {
	var b [4]byte
	for i := 0; i < len(id); i++ {
		b[i%4] ^= id[i]
	}
	for i := 0; i < len(salt); i++ {
		b[i%4] ^= salt[i]
	}
	return uint32(b[0])<<24 | uint32(b[1])<<16 | uint32(b[2])<<8 | uint32(b[3])
}

type rcRef struct {
	// history of Adds: key and the index of the add
	keys   []string
	minCap []int // minCap[i] = min capacity in effect from add i up to now
	hashes map[uint32]bool
	cap    int
}

func (r *rcRef) resize(n int) {
	r.cap = n
	for i := range r.minCap {
		if n < r.minCap[i] {
			r.minCap[i] = n
		}
	}
}

// mustRefuse reports whether the window oracle demands a refusal.
func (r *rcRef) mustRefuse(key string) (bool, string) {
	for i := len(r.keys) - 1; i >= 0; i-- {
		if r.keys[i] == key {
			between := len(r.keys) - 1 - i
			n := r.minCap[i]
			if r.cap < n {
				n = r.cap
			}
			if n > 0 && between < n {
				return true, fmt.Sprintf("seen %d adds ago, min capacity since then %d", between+1, n)
			}
			return false, ""
		}
	}
	return false, ""
}

func (r *rcRef) record(key string, h uint32) {
	r.keys = append(r.keys, key)
	r.minCap = append(r.minCap, r.cap)
	r.hashes[h] = true
	// bound memory: nothing older than 2*MaxCapacity adds can matter
	if len(r.keys) > 3*service.MaxCapacity {
		cut := len(r.keys) - 2*service.MaxCapacity
		r.keys = r.keys[cut:]
		r.minCap = r.minCap[cut:]
	}
}

func replayEngine(rng *Rng, n int, out *Out, args map[string]string) {
	opsPer := 200
	fmt.Sscan(args["ops"], &opsPer)
	caps := []int{0, 1, 2, 3, 4, 5, 7, 8, 16, 50, 100, 1000, service.MaxCapacity, -1, -7}
	for c := 0; c < n; c++ {
		r := rng.Fork()
		var capacity int
		switch {
		case r.Chance(70):
			capacity = Pick(r, caps[:10])
		case r.Chance(50):
			capacity = Pick(r, caps)
		default:
			capacity = r.Intn(40)
		}
		out.Stat(fmt.Sprintf("initcap.%s", capClass(capacity)), 1)
		var cache *service.ReplayCache
		ref := &rcRef{hashes: map[uint32]bool{}, cap: capacity}
		if r.Chance(3) {
			out.Op("replay nil", "ok")
			ref.cap = 0
		} else {
			rc := service.NewReplayCache(capacity)
			cache = &rc
			out.Op(fmt.Sprintf("replay new %d", capacity), "ok")
		}
		// small alphabets force repeats; ids of several lengths exercise the lane folding;
		// colliding pairs: same hash from different (id,salt).
		nids := 1 + r.Intn(3)
		ids := make([]string, nids)
		for i := range ids {
			ids[i] = string(r.Bytes(r.Intn(6)))
		}
		alpha := 2 + r.Intn(3*opsPer/2)
		saltLen := Pick(r, []int{0, 1, 3, 4, 5, 16, 24, 32})
		salts := make([][]byte, alpha)
		for i := range salts {
			salts[i] = r.Bytes(saltLen)
			if i > 0 && r.Chance(5) && saltLen >= 8 {
				// construct a checksum collision: swap lanes-equivalent bytes (i and i+4)
				s := append([]byte{}, salts[r.Intn(i)]...)
				s[0], s[4] = s[4], s[0]
				salts[i] = s
			}
		}
		for k := 0; k < opsPer; k++ {
			if cache != nil && r.Chance(4) {
				var nc int
				switch {
				case r.Chance(60):
					nc = Pick(r, caps[:10])
				case r.Chance(50):
					nc = Pick(r, caps)
				default:
					nc = service.MaxCapacity + 1 + r.Intn(5)
				}
				err := cache.Resize(nc)
				res := "ok"
				if err != nil {
					res = "err"
				} else {
					ref.resize(nc)
				}
				if (nc > service.MaxCapacity) != (err != nil) {
					out.Oracle("C07", "Resize(%d) returned err=%v", nc, err)
				}
				out.Op(fmt.Sprintf("replay resize %d", nc), res)
				out.Stat("op.resize."+res, 1)
				continue
			}
			id := Pick(r, ids)
			var salt []byte
			if r.Chance(15) && len(ref.keys) > 0 {
				// replay something recent
				salt = salts[r.Intn(alpha)]
			} else {
				salt = Pick(r, salts)
			}
			key := id + "\x00" + string(salt)
			must, why := ref.mustRefuse(key)
			h := xorFold(id, salt)
			seenHash := ref.hashes[h]
			got := cache.Add(id, salt)
			if must && got {
				out.Oracle("C07", "replayed handshake accepted: id=%s salt=%s (%s)", hexs([]byte(id)), hexs(salt), why)
			}
			if !got && !seenHash {
				out.Oracle("C07", "never-seen checksum refused: id=%s salt=%s", hexs([]byte(id)), hexs(salt))
			}
			if ref.cap == 0 && !got {
				out.Oracle("C07", "disabled cache refused a handshake")
			}
			if ref.cap != 0 {
				ref.record(key, h)
			}
			out.Op(fmt.Sprintf("replay add %s %s", hexs([]byte(id)), hexs(salt)), fmt.Sprint(got))
			out.Stat(fmt.Sprintf("op.add.%v", got), 1)
			if must {
				out.Stat("add.window-replay", 1)
			}
			if !got && !must {
				out.Stat("add.refused-outside-window-or-collision", 1)
			}
		}
	}
}

func capClass(c int) string {
	switch {
	case c < 0:
		return "negative"
	case c == 0:
		return "zero"
	case c <= 8:
		return "small"
	case c < service.MaxCapacity:
		return "medium"
	default:
		return "max"
	}
}
