package main

import "container/list"

func newList() *list.List { return list.New() }
