package main

import "container/list"

func newList() *list.List { return list.New() }

// sdkKey builds the server-side key object (the SDK type the server is configured with).
func sdkKey(cipher, secret string) (*sdkEncryptionKey, error) { return sdkNewKey(cipher, secret) }
