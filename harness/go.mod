module verif/harness

go 1.21

require (
	github.com/Jigsaw-Code/outline-sdk v0.0.14
	github.com/Jigsaw-Code/outline-ss-server v0.0.0
	github.com/prometheus/client_golang v1.15.0
	github.com/prometheus/client_model v0.3.0
	golang.org/x/crypto v0.17.0
)

require (
	github.com/beorn7/perks v1.0.1 // indirect
	github.com/cespare/xxhash/v2 v2.2.0 // indirect
	github.com/golang/protobuf v1.5.3 // indirect
	github.com/matttproud/golang_protobuf_extensions v1.0.4 // indirect
	github.com/oschwald/geoip2-golang v1.8.0 // indirect
	github.com/oschwald/maxminddb-golang v1.10.0 // indirect
	github.com/prometheus/common v0.42.0 // indirect
	github.com/prometheus/procfs v0.9.0 // indirect
	github.com/shadowsocks/go-shadowsocks2 v0.1.5 // indirect
	golang.org/x/sys v0.16.0 // indirect
	google.golang.org/protobuf v1.30.0 // indirect
)

replace github.com/Jigsaw-Code/outline-ss-server => /repo
