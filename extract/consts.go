package main

import (
	"go/ast"
	"go/token"
	"net"
	"strings"

	"github.com/Jigsaw-Code/outline-sdk/transport/shadowsocks"
	"github.com/shadowsocks/go-shadowsocks2/socks"
)

func genConsts() {
	svc := loadPkg("service")
	cmd := loadPkg("cmd/outline-ss-server")
	l := newLean("Consts.lean")
	l.p("namespace OutlineModel.Gen")
	emit := func(lean string, p *Pkg, rel, name string) {
		v, where := constInt(p, rel, name)
		l.p("/-- %s.%s at %s -/", rel, name, where)
		l.p("def %s : Nat := %d", lean, v)
	}
	emit("maxCapacity", svc, "service", "MaxCapacity")
	emit("bytesForKeyFinding", svc, "service", "bytesForKeyFinding")
	emit("serverSaltMarkLen", svc, "service", "serverSaltMarkLen")
	emit("minSaltEntropy", svc, "service", "minSaltEntropy")
	emit("serverUDPBufferSize", svc, "service", "serverUDPBufferSize")
	emit("tcpReadTimeoutNs", svc, "service", "tcpReadTimeout")
	emit("defaultNatTimeoutNs", svc, "service", "defaultNatTimeout")
	emit("cmdTcpReadTimeoutNs", cmd, "cmd/outline-ss-server", "tcpReadTimeout")
	emit("cmdDefaultNatTimeoutNs", cmd, "cmd/outline-ss-server", "defaultNatTimeout")

	// maxAddrLen = len(socks.ParseAddr(<literal>)): evaluate the literal with the pinned dependency.
	if e, n := svc.findValue("maxAddrLen"); e == nil {
		miss("var service.maxAddrLen not found")
	} else {
		ok := false
		if c, isCall := e.(*ast.CallExpr); isCall && len(c.Args) == 1 && exprString(c.Fun) == "len" {
			if c2, isCall2 := c.Args[0].(*ast.CallExpr); isCall2 && exprString(c2.Fun) == "socks.ParseAddr" && len(c2.Args) == 1 {
				if lit, isLit := c2.Args[0].(*ast.BasicLit); isLit && lit.Kind == token.STRING {
					s := strings.Trim(lit.Value, "\"`")
					l.p("/-- service.maxAddrLen = len(socks.ParseAddr(%q)) at %s, evaluated with the pinned go-shadowsocks2 -/", s, pos(n))
					l.p("def maxAddrLen : Nat := %d", len(socks.ParseAddr(s)))
					ok = true
				}
			}
		}
		if v, isInt := evalInt(e); !ok && isInt {
			l.p("def maxAddrLen : Nat := %d", v)
			ok = true
		}
		if !ok {
			miss("service.maxAddrLen has an unrecognised initialiser at %s", pos(n))
		}
	}

	// natconn.onWrite: DNS timeout literal and the port test of isDNS
	dnsNs, dnsPort := int64(-1), ""
	if fd := svc.findFunc("natconn", "onWrite"); fd != nil {
		// constants declared inside the function (`const dnsTimeout = 17 * time.Second`) count as their value
		local := map[string]int64{}
		ast.Inspect(fd.Body, func(n ast.Node) bool {
			if gd, ok := n.(*ast.GenDecl); ok && gd.Tok == token.CONST {
				for _, sp := range gd.Specs {
					vs := sp.(*ast.ValueSpec)
					for i, id := range vs.Names {
						if i < len(vs.Values) {
							if v, ok := evalInt(vs.Values[i]); ok {
								local[id.Name] = v
							}
						}
					}
				}
			}
			return true
		})
		ast.Inspect(fd.Body, func(n ast.Node) bool {
			if is, ok := n.(*ast.IfStmt); ok && exprString(is.Cond) == "isDNS" {
				for _, st := range is.Body.List {
					if as, ok := st.(*ast.AssignStmt); ok && len(as.Lhs) == 1 && exprString(as.Lhs[0]) == "timeout" {
						if v, ok := evalInt(as.Rhs[0]); ok {
							dnsNs = v
						} else if id, ok := as.Rhs[0].(*ast.Ident); ok {
							if v, ok := local[id.Name]; ok {
								dnsNs = v
							}
						}
					}
				}
			}
			return true
		})
	}
	if fd := svc.findFunc("", "isDNS"); fd != nil {
		ast.Inspect(fd.Body, func(n ast.Node) bool {
			if be, ok := n.(*ast.BinaryExpr); ok && be.Op == token.EQL && exprString(be.X) == "port" {
				if lit, ok := be.Y.(*ast.BasicLit); ok {
					dnsPort = strings.Trim(lit.Value, "\"")
				}
			}
			return true
		})
	}
	if dnsNs < 0 {
		miss("natconn.onWrite: `if isDNS { timeout = <const> }` not found")
	}
	if dnsPort == "" {
		miss("isDNS: `port == <literal>` not found")
	}
	l.p("def dnsTimeoutNs : Nat := %d", dnsNs)
	l.p("def dnsPort : String := %s", leanStr(dnsPort))
	l.p("end OutlineModel.Gen")
	l.write()
}

func exprString(e ast.Expr) string {
	switch x := e.(type) {
	case *ast.Ident:
		return x.Name
	case *ast.SelectorExpr:
		return exprString(x.X) + "." + x.Sel.Name
	case *ast.StarExpr:
		return "*" + exprString(x.X)
	case *ast.UnaryExpr:
		return x.Op.String() + exprString(x.X)
	case *ast.ParenExpr:
		return "(" + exprString(x.X) + ")"
	case *ast.CallExpr:
		var as []string
		for _, a := range x.Args {
			as = append(as, exprString(a))
		}
		return exprString(x.Fun) + "(" + strings.Join(as, ",") + ")"
	case *ast.BasicLit:
		return x.Value
	case *ast.IndexExpr:
		return exprString(x.X) + "[" + exprString(x.Index) + "]"
	case *ast.BinaryExpr:
		return exprString(x.X) + x.Op.String() + exprString(x.Y)
	case *ast.FuncLit:
		return "func{...}"
	case *ast.CompositeLit:
		return exprString(x.Type) + "{...}"
	case *ast.TypeAssertExpr:
		return exprString(x.X) + ".(" + exprString(x.Type) + ")"
	case *ast.SliceExpr:
		return exprString(x.X) + "[:]"
	case *ast.ArrayType:
		return "[]" + exprString(x.Elt)
	case *ast.KeyValueExpr:
		return exprString(x.Key) + ":" + exprString(x.Value)
	case nil:
		return ""
	}
	return "?"
}

// cipher table: for every name the SDK accepts, the sizes the code will see.
func genCiphers() {
	l := newLean("Ciphers.lean")
	l.p("namespace OutlineModel.Gen")
	l.p("structure CipherSpec where")
	l.p("  name : String")
	l.p("  saltSize : Nat")
	l.p("  tagSize : Nat")
	l.p("deriving Repr, DecidableEq")
	names := []string{shadowsocks.CHACHA20IETFPOLY1305, shadowsocks.AES256GCM, shadowsocks.AES192GCM, shadowsocks.AES128GCM,
		"chacha20-ietf-poly1305", "aes-256-gcm", "aes-192-gcm", "aes-128-gcm"}
	l.p("/-- obtained by calling shadowsocks.NewEncryptionKey(name, _) of the outline-sdk version pinned in /repo/go.sum -/")
	l.p("def ciphers : List CipherSpec := [")
	first := true
	for _, n := range names {
		k, err := shadowsocks.NewEncryptionKey(n, "secret")
		if err != nil {
			continue
		}
		sep := ","
		if first {
			sep = " "
			first = false
		}
		l.p("  %s{ name := %s, saltSize := %d, tagSize := %d }", sep, leanStr(n), k.SaltSize(), k.TagSize())
	}
	l.p("]")
	l.p("end OutlineModel.Gen")
	l.write()
}

// privateNetworks: CIDR string literals inside net/private_net.go's init loop.
func genPrivateNets() {
	p := loadPkg("net")
	l := newLean("PrivateNets.lean")
	l.p("namespace OutlineModel.Gen")
	var cidrs []string
	var where string
	found := false
	for _, fn := range p.sortedFiles() {
		ast.Inspect(p.Files[fn], func(n ast.Node) bool {
			fd, ok := n.(*ast.FuncDecl)
			if !ok || fd.Name.Name != "init" || fd.Body == nil {
				return true
			}
			ast.Inspect(fd.Body, func(m ast.Node) bool {
				rs, ok := m.(*ast.RangeStmt)
				if !ok {
					return true
				}
				cl, ok := rs.X.(*ast.CompositeLit)
				if !ok {
					return true
				}
				appends := false
				ast.Inspect(rs.Body, func(k ast.Node) bool {
					if as, ok := k.(*ast.AssignStmt); ok && len(as.Lhs) == 1 && exprString(as.Lhs[0]) == "privateNetworks" {
						appends = true
					}
					return true
				})
				if !appends {
					return true
				}
				found = true
				where = pos(rs)
				for _, el := range cl.Elts {
					if lit, ok := el.(*ast.BasicLit); ok && lit.Kind == token.STRING {
						cidrs = append(cidrs, strings.Trim(lit.Value, "\"`"))
					} else {
						miss("privateNetworks: non-literal CIDR at %s", pos(el))
					}
				}
				return true
			})
			return true
		})
	}
	if !found {
		miss("net: init loop appending to privateNetworks not found")
	}
	// every other write to privateNetworks would invalidate the table
	writes := 0
	for _, fn := range p.sortedFiles() {
		ast.Inspect(p.Files[fn], func(n ast.Node) bool {
			if as, ok := n.(*ast.AssignStmt); ok {
				for _, lh := range as.Lhs {
					if exprString(lh) == "privateNetworks" {
						writes++
					}
				}
			}
			return true
		})
	}
	if writes != 1 {
		miss("net: privateNetworks is assigned at %d places (expected exactly the init loop)", writes)
	}
	l.p("/-- CIDR literals of net.privateNetworks (%s), as (network bytes, mask bytes) exactly as net.ParseCIDR builds them -/", where)
	l.p("def privateNets : List (List UInt8 × List UInt8) := [")
	for i, c := range cidrs {
		_, n, err := net.ParseCIDR(c)
		if err != nil {
			miss("privateNetworks: %q does not parse", c)
			continue
		}
		sep := ","
		if i == 0 {
			sep = " "
		}
		l.p("  %s(%s, %s)  -- %s", sep, byteList(n.IP), byteList(n.Mask), c)
	}
	l.p("]")
	l.p("end OutlineModel.Gen")
	l.write()
}

func byteList(b []byte) string {
	var s []string
	for _, x := range b {
		s = append(s, itoa(int(x)))
	}
	return "[" + strings.Join(s, ", ") + "]"
}

func itoa(i int) string {
	if i == 0 {
		return "0"
	}
	neg := i < 0
	if neg {
		i = -i
	}
	var d []byte
	for i > 0 {
		d = append([]byte{byte('0' + i%10)}, d...)
		i /= 10
	}
	if neg {
		return "-" + string(d)
	}
	return string(d)
}
