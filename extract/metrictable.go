package main

// Metric table (tie "G" of C20): every collector with its label names, and for every label value
// written anywhere in prometheus/ and cmd/outline-ss-server/ the provenance class of the expression,
// computed by typed backward tracing: through local assignments, through parameters to the
// arguments at every call site (static, interface and func-value calls, across the analysed
// packages), and through the return statements of in-package helper functions.
//
// Classes: const | status | accessKey | country | asn | asorg | listenAddr | version | clientAddr | unknown.
// Anything not recognised is "unknown", which the obligation in Props/C20.lean rejects.

import (
	"fmt"
	"go/ast"
	"go/token"
	"go/types"
	"os"
	"sort"
	"strings"

	"golang.org/x/tools/go/packages"
)

type argSite struct {
	p      *packages.Package
	call   *ast.CallExpr
	caller string // id of the enclosing function
}

type provenance struct {
	la          *lockAnalysis
	callers     map[string][]argSite     // callee id -> call sites
	declByID    map[string]*ast.FuncDecl // id -> declaration
	pkgOf       map[string]*packages.Package
	litByID     map[string]*ast.FuncLit
	encl        map[ast.Node]string // function body node -> id (for locating the enclosing function of a call)
	statusConst bool
}

func setOf(xs ...string) map[string]bool {
	m := map[string]bool{}
	for _, x := range xs {
		m[x] = true
	}
	return m
}

func union(a, b map[string]bool) map[string]bool {
	for k := range b {
		a[k] = true
	}
	return a
}

func keysSorted(m map[string]bool) []string {
	var ks []string
	for k := range m {
		ks = append(ks, k)
	}
	sort.Strings(ks)
	return ks
}

// enclosing function id of a position
func (pv *provenance) enclosing(p *packages.Package, pos token.Pos) (string, ast.Node) {
	best := ""
	var bestNode ast.Node
	var bestSpan token.Pos = 1 << 40
	for id, fd := range pv.declByID {
		if pv.pkgOf[id] == p && fd.Body != nil && fd.Body.Pos() <= pos && pos <= fd.Body.End() {
			if span := fd.Body.End() - fd.Body.Pos(); span < bestSpan {
				best, bestNode, bestSpan = id, fd, span
			}
		}
	}
	for id, fl := range pv.litByID {
		if pv.pkgOf[id] == p && fl.Body.Pos() <= pos && pos <= fl.Body.End() {
			if span := fl.Body.End() - fl.Body.Pos(); span < bestSpan {
				best, bestNode, bestSpan = id, fl, span
			}
		}
	}
	return best, bestNode
}

func funcParams(n ast.Node) *ast.FieldList {
	switch x := n.(type) {
	case *ast.FuncDecl:
		return x.Type.Params
	case *ast.FuncLit:
		return x.Type.Params
	}
	return nil
}

func funcBody(n ast.Node) *ast.BlockStmt {
	switch x := n.(type) {
	case *ast.FuncDecl:
		return x.Body
	case *ast.FuncLit:
		return x.Body
	}
	return nil
}

// classify an expression evaluated inside function `fnID` of package p.
func (pv *provenance) classify(p *packages.Package, e ast.Expr, fnID string, fnNode ast.Node, depth int) map[string]bool {
	if depth > 7 {
		return setOf("unknown")
	}
	switch x := e.(type) {
	case *ast.BasicLit:
		return setOf("const")
	case *ast.ParenExpr:
		return pv.classify(p, x.X, fnID, fnNode, depth)
	case *ast.Ident:
		obj := p.TypesInfo.ObjectOf(x)
		if c, ok := obj.(*types.Const); ok && c != nil {
			return setOf("const")
		}
		v, ok := obj.(*types.Var)
		if !ok {
			return setOf("unknown")
		}
		// parameter of the enclosing function?
		if fl := funcParams(fnNode); fl != nil {
			idx := 0
			for _, f := range fl.List {
				for _, n := range f.Names {
					if p.TypesInfo.ObjectOf(n) == obj {
						return pv.classifyParam(fnID, idx, v.Name(), depth)
					}
					idx++
				}
			}
		}
		if v.IsField() {
			return pv.classField(v.Name())
		}
		// package-level variable (e.g. `version`)
		if v.Parent() == p.Types.Scope() {
			if v.Name() == "version" {
				return setOf("version")
			}
			return setOf("unknown")
		}
		// local: every value assigned to it in this function
		out := map[string]bool{}
		found := false
		if body := funcBody(fnNode); body != nil {
			ast.Inspect(body, func(n ast.Node) bool {
				switch s := n.(type) {
				case *ast.AssignStmt:
					for i, l := range s.Lhs {
						if id, ok := l.(*ast.Ident); ok && p.TypesInfo.ObjectOf(id) == obj {
							found = true
							if len(s.Rhs) == len(s.Lhs) {
								union(out, pv.classify(p, s.Rhs[i], fnID, fnNode, depth+1))
							} else {
								union(out, setOf("unknown"))
							}
						}
					}
				case *ast.ValueSpec:
					for i, n := range s.Names {
						if p.TypesInfo.ObjectOf(n) == obj && i < len(s.Values) {
							found = true
							union(out, pv.classify(p, s.Values[i], fnID, fnNode, depth+1))
						}
					}
				}
				return true
			})
		}
		if !found {
			return setOf("unknown")
		}
		return out
	case *ast.SelectorExpr:
		if sel, ok := p.TypesInfo.Selections[x]; ok && sel.Kind() == types.FieldVal {
			name := x.Sel.Name
			if name == "Status" && typeNameOf(sel.Recv()) == "ConnectionError" {
				if pv.statusConst {
					return setOf("status")
				}
				return setOf("unknown")
			}
			return pv.classField(name)
		}
		if obj, ok := p.TypesInfo.Uses[x.Sel].(*types.Const); ok && obj != nil {
			return setOf("const")
		}
		return setOf("unknown")
	case *ast.CallExpr:
		fun := exprString(x.Fun)
		// conversions: string(x), T(x)
		if tv, ok := p.TypesInfo.Types[x.Fun]; ok && tv.IsType() && len(x.Args) == 1 {
			return pv.classify(p, x.Args[0], fnID, fnNode, depth+1)
		}
		if sel, ok := x.Fun.(*ast.SelectorExpr); ok && len(x.Args) == 0 && (sel.Sel.Name == "String" || sel.Sel.Name == "Error") {
			// X.String(): class of X for the value types that print themselves (CountryCode, net.Addr fields)
			inner := pv.classify(p, sel.X, fnID, fnNode, depth+1)
			if sel.Sel.Name == "Error" {
				return setOf("unknown") // error texts may quote addresses
			}
			return inner
		}
		if fun == "asnLabel" {
			return setOf("asn")
		}
		if strings.HasPrefix(fun, "fmt.Sprint") {
			out := map[string]bool{}
			for _, a := range x.Args {
				union(out, pv.classify(p, a, fnID, fnNode, depth+1))
			}
			return out
		}
		// in-package helper: classes of everything it returns
		ids := pv.la.resolveCallees(p, x)
		out := map[string]bool{}
		known := false
		for _, id := range ids {
			fd, ok := pv.declByID[id]
			if !ok || fd.Body == nil {
				continue
			}
			known = true
			cp := pv.pkgOf[id]
			ast.Inspect(fd.Body, func(n ast.Node) bool {
				if _, isLit := n.(*ast.FuncLit); isLit {
					return false
				}
				if rs, ok := n.(*ast.ReturnStmt); ok && len(rs.Results) >= 1 {
					union(out, pv.classify(cp, rs.Results[0], id, fd, depth+1))
				}
				return true
			})
		}
		if !known {
			return setOf("unknown")
		}
		return out
	}
	return setOf("unknown")
}

func (pv *provenance) classField(name string) map[string]bool {
	switch name {
	case "accessKey", "ID":
		return setOf("accessKey")
	case "CountryCode":
		return setOf("country")
	case "Organization":
		return setOf("asorg")
	case "Number":
		return setOf("asn")
	case "localAddr":
		return setOf("listenAddr")
	case "clientAddr":
		return setOf("clientAddr")
	case "proto":
		return setOf("const")
	}
	return setOf("unknown")
}

// classifyParam: classes of the idx-th argument at every call site of fnID.
func (pv *provenance) classifyParam(fnID string, idx int, name string, depth int) map[string]bool {
	sites := pv.callers[fnID]
	if len(sites) == 0 {
		// an entry point nobody in the analysed packages calls: judged by what it is
		switch name {
		case "accessKey":
			return setOf("accessKey")
		case "version":
			return setOf("version")
		}
		return setOf("unknown")
	}
	out := map[string]bool{}
	for _, s := range sites {
		args := s.call.Args
		if idx >= len(args) {
			if s.call.Ellipsis.IsValid() || len(args) == 0 {
				union(out, setOf("unknown"))
				continue
			}
			// variadic tail: the parameter collects the remaining arguments
			idxArgs := args[min(idx, len(args)-1):]
			for _, a := range idxArgs {
				cid, cnode := pv.enclosing(s.p, a.Pos())
				union(out, pv.classify(s.p, a, cid, cnode, depth+1))
			}
			continue
		}
		cid, cnode := pv.enclosing(s.p, args[idx].Pos())
		union(out, pv.classify(s.p, args[idx], cid, cnode, depth+1))
	}
	return out
}

func genMetricTable() {
	cfg := &packages.Config{Mode: packages.NeedName | packages.NeedSyntax | packages.NeedTypes | packages.NeedTypesInfo | packages.NeedImports | packages.NeedDeps | packages.NeedFiles,
		Dir: repo}
	pkgs, err := packages.Load(cfg, "./service", "./prometheus", "./cmd/outline-ss-server", "./net")
	if err != nil || len(pkgs) != 4 {
		miss("metric table: packages.Load: %v", err)
		return
	}
	la := &lockAnalysis{pkgs: pkgs, edges: map[string]edgeFact{}, funcs: map[string]*fnInfo{}, litOf: map[*ast.FuncLit]string{},
		fieldFns: map[*types.Var][]string{}, paramFns: map[*types.Var][]string{}, implsMemo: map[string][]string{},
		fieldTypes: map[*types.Var]map[string]bool{}, funcDecls: map[string]*funcDeclInfo{}, lockAlias: map[string]string{},
		retMemo: map[string]map[string]bool{}}
	la.run()
	pv := &provenance{la: la, callers: map[string][]argSite{}, declByID: map[string]*ast.FuncDecl{}, pkgOf: map[string]*packages.Package{},
		litByID: map[string]*ast.FuncLit{}}
	for _, p := range pkgs {
		for _, f := range p.Syntax {
			for _, d := range f.Decls {
				if fd, ok := d.(*ast.FuncDecl); ok && fd.Body != nil {
					if obj, _ := p.TypesInfo.Defs[fd.Name].(*types.Func); obj != nil {
						id := funcObjID(obj)
						pv.declByID[id] = fd
						pv.pkgOf[id] = p
					}
				}
			}
			ast.Inspect(f, func(n ast.Node) bool {
				if fl, ok := n.(*ast.FuncLit); ok {
					if id, ok := la.litOf[fl]; ok {
						pv.litByID[id] = fl
						pv.pkgOf[id] = p
					}
				}
				return true
			})
		}
	}
	// call sites with their arguments
	for _, p := range pkgs {
		for _, f := range p.Syntax {
			ast.Inspect(f, func(n ast.Node) bool {
				if c, ok := n.(*ast.CallExpr); ok {
					for _, id := range la.resolveCallees(p, c) {
						pv.callers[id] = append(pv.callers[id], argSite{p: p, call: c})
					}
				}
				return true
			})
		}
	}
	// every ConnectionError status is a string literal (or a parameter fed only by literals)
	pv.statusConst = true
	for _, s := range pv.callers["net.NewConnectionError"] {
		if len(s.call.Args) < 1 {
			continue
		}
		cid, cnode := pv.enclosing(s.p, s.call.Pos())
		cl := pv.classify(s.p, s.call.Args[0], cid, cnode, 0)
		if len(cl) != 1 || !cl["const"] {
			pv.statusConst = false
		}
	}
	if len(pv.callers["net.NewConnectionError"]) == 0 {
		pv.statusConst = false
	}

	type collector struct {
		name   string
		labels []string
		where  string
	}
	var collectors []collector
	type site struct {
		where   string
		classes []string
	}
	var labelSites, valueSites []site
	complete := true
	strLits := func(e ast.Expr) ([]string, bool) {
		cl, ok := e.(*ast.CompositeLit)
		if !ok {
			return nil, false
		}
		var out []string
		for _, el := range cl.Elts {
			if kv, isKV := el.(*ast.KeyValueExpr); isKV {
				el = kv.Key
			}
			lit, ok := el.(*ast.BasicLit)
			if !ok || lit.Kind != token.STRING {
				return nil, false
			}
			out = append(out, strings.Trim(lit.Value, "\"`"))
		}
		return out, true
	}
	for _, p := range pkgs {
		if !strings.HasSuffix(p.PkgPath, "/prometheus") && !strings.HasSuffix(p.PkgPath, "/cmd/outline-ss-server") {
			continue
		}
		for _, f := range p.Syntax {
			ast.Inspect(f, func(n ast.Node) bool {
				c, ok := n.(*ast.CallExpr)
				if !ok {
					return true
				}
				fun := exprString(c.Fun)
				where := la.where(p, c)
				switch {
				case strings.HasPrefix(fun, "prometheus.New") && (strings.HasSuffix(fun, "Vec") || fun == "prometheus.NewCounter" || fun == "prometheus.NewGauge" || fun == "prometheus.NewHistogram"):
					col := collector{where: where}
					if len(c.Args) >= 1 {
						if opts, ok := c.Args[0].(*ast.CompositeLit); ok {
							ns, name := "", ""
							for _, el := range opts.Elts {
								if kv, ok := el.(*ast.KeyValueExpr); ok {
									val := ""
									if lit, ok := kv.Value.(*ast.BasicLit); ok {
										val = strings.Trim(lit.Value, "\"`")
									} else if id, ok := kv.Value.(*ast.Ident); ok {
										// Namespace: namespace  (a local string variable set from a literal)
										cid, cnode := pv.enclosing(p, id.Pos())
										if cl := pv.classify(p, id, cid, cnode, 0); len(cl) == 1 && cl["const"] {
											val = "<" + id.Name + ">"
										} else {
											complete = false
										}
									}
									switch exprString(kv.Key) {
									case "Name":
										name = val
									case "Namespace":
										ns = val
									}
								}
							}
							col.name = strings.TrimPrefix(ns+"_"+name, "_")
						}
					}
					if len(c.Args) >= 2 {
						ls, ok := strLits(c.Args[1])
						if !ok {
							complete = false
						}
						col.labels = ls
					}
					collectors = append(collectors, col)
				case strings.HasSuffix(fun, ".WithLabelValues") || fun == "addIfNonZero":
					args := c.Args
					if fun == "addIfNonZero" {
						args = c.Args[2:]
					}
					if c.Ellipsis.IsValid() {
						// addIfNonZero's own vec.WithLabelValues(lvs...): covered by its call sites
						if id, ok := args[len(args)-1].(*ast.Ident); ok && id.Name == "lvs" {
							return true
						}
						complete = false
						return true
					}
					cid, cnode := pv.enclosing(p, c.Pos())
					s := site{where: where + " " + fun}
					for _, a := range args {
						s.classes = append(s.classes, strings.Join(keysSorted(pv.classify(p, a, cid, cnode, 0)), "+"))
					}
					labelSites = append(labelSites, s)
				case strings.HasSuffix(fun, ".CurryWith") || strings.HasSuffix(fun, ".With"):
					if len(c.Args) == 1 {
						if cl, ok := c.Args[0].(*ast.CompositeLit); ok {
							cid, cnode := pv.enclosing(p, c.Pos())
							s := site{where: where + " " + fun}
							for _, el := range cl.Elts {
								if kv, ok := el.(*ast.KeyValueExpr); ok {
									s.classes = append(s.classes, strings.Join(keysSorted(pv.classify(p, kv.Value, cid, cnode, 0)), "+"))
								} else {
									complete = false
								}
							}
							labelSites = append(labelSites, s)
						} else {
							complete = false
						}
					}
				case strings.HasSuffix(fun, ".Add") || strings.HasSuffix(fun, ".Observe") || strings.HasSuffix(fun, ".Set"):
					// only calls on prometheus metric values
					if sel, ok := c.Fun.(*ast.SelectorExpr); ok {
						if tv, ok := p.TypesInfo.Types[sel.X]; ok && tv.Type != nil && strings.Contains(tv.Type.String(), "prometheus") && len(c.Args) == 1 {
							txt := strings.ToLower(nodeString(c.Args[0]))
							class := "numeric"
							if strings.Contains(txt, "addr") || strings.Contains(txt, ".port") || strings.Contains(txt, "remote") {
								class = "addrDerived"
							}
							if bt, ok := p.TypesInfo.Types[c.Args[0]]; !ok || bt.Type == nil || !isNumeric(bt.Type) {
								class = "nonNumeric"
							}
							valueSites = append(valueSites, site{where: where + " " + fun, classes: []string{class}})
						}
					}
				}
				return true
			})
		}
	}
	if os.Getenv("VERIF_EXTRACT_DEBUG") != "" {
		for _, id := range []string{"tcpConnMetrics.AddClosed", "tcpServiceMetrics.closeConnection"} {
			for _, s := range pv.callers[id] {
				cid, _ := pv.enclosing(s.p, s.call.Pos())
				fmt.Printf("DBG caller of %s: %s in %s args=%s\n", id, la.where(s.p, s.call), cid, exprString(s.call))
			}
		}
	}
	sort.Slice(collectors, func(i, j int) bool { return collectors[i].name < collectors[j].name })
	sort.Slice(labelSites, func(i, j int) bool { return labelSites[i].where < labelSites[j].where })
	sort.Slice(valueSites, func(i, j int) bool { return valueSites[i].where < valueSites[j].where })
	strList := func(xs []string) string {
		var q []string
		for _, x := range xs {
			q = append(q, leanStr(x))
		}
		return "[" + strings.Join(q, ", ") + "]"
	}
	l := newLean("MetricTable.lean")
	l.p("namespace OutlineModel.Gen.MetricTable")
	l.p("/-- collectors: (metric name, label names) -/")
	l.p("def collectors : List (String × List String) := [")
	for i, c := range collectors {
		sep := ","
		if i == 0 {
			sep = " "
		}
		l.p("  %s(%s, %s)  -- %s", sep, leanStr(c.name), strList(c.labels), c.where)
	}
	l.p("]")
	l.p("/-- label-value sites: (enclosing call, number of values, provenance classes of the values) -/")
	l.p("def labelSites : List (String × Nat × List String) := [")
	for i, s := range labelSites {
		sep := ","
		if i == 0 {
			sep = " "
		}
		l.p("  %s(%s, %d, %s)", sep, leanStr(s.where), len(s.classes), strList(s.classes))
	}
	l.p("]")
	l.p("def valueSites : List (String × String) := [")
	for i, s := range valueSites {
		sep := ","
		if i == 0 {
			sep = " "
		}
		l.p("  %s(%s, %s)", sep, leanStr(s.where), leanStr(s.classes[0]))
	}
	l.p("]")
	l.p("def allowedClasses : List String := [\"const\", \"status\", \"const+status\", \"accessKey\", \"country\", \"asn\", \"asorg\", \"listenAddr\", \"version\"]")
	l.p("def allowedLabelNames : List String := [\"proto\", \"found_key\", \"dir\", \"access_key\", \"location\", \"asn\", \"asorg\", \"port\", \"status\", \"error\", \"version\"]")
	l.p("def allowedValueClasses : List String := [\"numeric\"]")
	l.p("/-- every label-writing call had a shape the extractor could classify; every ConnectionError status is a literal: %v -/", pv.statusConst)
	l.p("def complete : Bool := %v", complete && pv.statusConst && len(labelSites) > 0 && len(collectors) > 0)
	l.p("end OutlineModel.Gen.MetricTable")
	l.write()
	_ = fmt.Sprint
}

func isNumeric(t types.Type) bool {
	b, ok := t.Underlying().(*types.Basic)
	return ok && b.Info()&types.IsNumeric != 0
}
