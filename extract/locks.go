package main

// Lock-set, lock-order and critical-section facts (ties "G" of C13 and C19, used by C01/C07/C17 for
// "each operation is one critical section").  Typed analysis over go/packages (the x/tools version
// already pinned by /repo/go.sum), production build tags only.
//
// For every function and function literal of the analysed packages the body is walked in program
// order with the set of locks held (Lock/RLock add, Unlock/RUnlock remove, `defer x.Unlock()` keeps
// the lock to the end; branches are walked with a copy and merged by intersection).  Recorded:
//   - every access to a field of a struct type declared in the analysed packages: read/write,
//     locks held, ordinal of the critical section it lies in, whether the object is still private
//     to the function that builds it (composite literal in the same function);
//   - every acquisition while other locks are held (a lock-order edge), directly or through calls:
//     static calls, interface calls (all implementations), and calls of func-typed fields
//     (resolved to the function literals stored into that field, through constructor parameters);
//   - channel sends/receives and blocking calls made while a lock is held.

import (
	"fmt"
	"go/ast"
	"go/token"
	"go/types"
	"os"
	"path/filepath"
	"sort"
	"strings"

	"golang.org/x/tools/go/packages"
)

type heldLock struct {
	class string
	excl  bool
}

type accessFact struct {
	strct, field, fn string
	write            bool
	held             []heldLock
	section          int
	prepub           bool
	where            string
}

type edgeFact struct{ from, to, where string }

type lockAnalysis struct {
	pkgs     []*packages.Package
	info     map[*ast.File]*packages.Package
	accesses []accessFact
	edges    map[string]edgeFact
	blocking []string
	leaks    []string
	// call graph
	funcs      map[string]*fnInfo      // key: qualified name or literal id
	litOf      map[*ast.FuncLit]string // literal -> id
	fieldFns   map[*types.Var][]string // func-typed field/var -> function ids stored in it
	paramFns   map[*types.Var][]string // func-typed parameter -> function ids passed for it
	declOf     map[*types.Func]string  // declared function -> id
	implsMemo  map[string][]string
	fieldTypes map[*types.Var]map[string]bool // interface-typed field/var -> concrete in-package types stored in it ("?" = unknown, "ext" = external)
	funcDecls  map[string]*funcDeclInfo       // id -> declaration (for return-type resolution)
	lockAlias  map[string]string              // class of a *sync.Mutex field -> class of the mutex it points to
	retMemo    map[string]map[string]bool
	finalRound bool
	params     map[*types.Var]bool // function parameters: their value also comes from callers
}

type funcDeclInfo struct {
	p    *packages.Package
	body *ast.BlockStmt
	typ  *types.Signature
}

type callSite struct {
	callee []string
	held   []heldLock
	where  string
}

type fnInfo struct {
	id       string
	acquires map[string]bool // direct
	calls    []callSite
	all      map[string]bool // transitive
}

func typeNameOf(t types.Type) string {
	for {
		if p, ok := t.(*types.Pointer); ok {
			t = p.Elem()
			continue
		}
		break
	}
	if n, ok := t.(*types.Named); ok {
		return n.Obj().Name()
	}
	return ""
}

func isMutexType(t types.Type) (bool, bool) {
	for {
		if p, ok := t.(*types.Pointer); ok {
			t = p.Elem()
			continue
		}
		break
	}
	if n, ok := t.(*types.Named); ok && n.Obj().Pkg() != nil && n.Obj().Pkg().Path() == "sync" {
		switch n.Obj().Name() {
		case "Mutex":
			return true, false
		case "RWMutex":
			return true, true
		}
	}
	return false, false
}

func (la *lockAnalysis) where(p *packages.Package, n ast.Node) string {
	pos := p.Fset.Position(n.Pos())
	r, _ := filepath.Rel(repo, pos.Filename)
	return fmt.Sprintf("%s:%d", r, pos.Line)
}

// lockClass returns the class of the mutex a Lock/Unlock call operates on, e.g. "cipherList.mu".
func (la *lockAnalysis) lockClass(p *packages.Package, recv ast.Expr) string {
	switch x := recv.(type) {
	case *ast.SelectorExpr: // a.b.mu
		if tv, ok := p.TypesInfo.Types[x.X]; ok {
			if tn := typeNameOf(tv.Type); tn != "" {
				return tn + "." + x.Sel.Name
			}
		}
		return exprString(x)
	case *ast.Ident: // embedded mutex: m.Lock() where m is *natmap
		if tv, ok := p.TypesInfo.Types[x]; ok {
			if tn := typeNameOf(tv.Type); tn != "" {
				return tn + ".(embedded)"
			}
		}
	case *ast.StarExpr:
		return la.lockClass(p, x.X)
	case *ast.UnaryExpr:
		return la.lockClass(p, x.X)
	}
	return exprString(recv)
}

type walker struct {
	la         *lockAnalysis
	p          *packages.Package
	fn         *fnInfo
	fnName     string
	held       []heldLock
	section    int
	private    map[types.Object]bool // locals that hold a freshly built, not yet shared struct
	reassigned map[types.Object]bool
	deferred   map[string]bool // lock classes with a deferred unlock in this function
}

func copyHeld(h []heldLock) []heldLock { return append([]heldLock{}, h...) }

func intersect(a, b []heldLock) []heldLock {
	var out []heldLock
	for _, x := range a {
		for _, y := range b {
			if x == y {
				out = append(out, x)
			}
		}
	}
	return out
}

func (w *walker) stmts(l []ast.Stmt) {
	for _, s := range l {
		w.stmt(s)
	}
}

func (w *walker) branch(f func()) []heldLock {
	saved := copyHeld(w.held)
	f()
	out := w.held
	w.held = saved
	return out
}

func terminates(b *ast.BlockStmt) bool {
	if b == nil || len(b.List) == 0 {
		return false
	}
	switch b.List[len(b.List)-1].(type) {
	case *ast.ReturnStmt, *ast.BranchStmt:
		return true
	}
	if es, ok := b.List[len(b.List)-1].(*ast.ExprStmt); ok {
		if c, ok := es.X.(*ast.CallExpr); ok && exprString(c.Fun) == "panic" {
			return true
		}
	}
	return false
}

func (w *walker) stmt(s ast.Stmt) {
	switch x := s.(type) {
	case nil:
	case *ast.BlockStmt:
		w.stmts(x.List)
	case *ast.ExprStmt:
		w.expr(x.X, false)
	case *ast.AssignStmt:
		for _, r := range x.Rhs {
			w.expr(r, false)
		}
		for i, l := range x.Lhs {
			w.expr(l, true)
			// private objects: v := &T{...} / T{...} / new(T), and v is never assigned anything else
			if id, ok := l.(*ast.Ident); ok && i < len(x.Rhs) {
				if obj := w.p.TypesInfo.ObjectOf(id); obj != nil {
					if isFreshStruct(x.Rhs[i]) && x.Tok == token.DEFINE && !w.reassigned[obj] {
						w.private[obj] = true
					} else {
						delete(w.private, obj)
						w.reassigned[obj] = true
					}
				}
			}
		}
	case *ast.IncDecStmt:
		w.expr(x.X, true)
	case *ast.DeclStmt:
		if gd, ok := x.Decl.(*ast.GenDecl); ok {
			for _, sp := range gd.Specs {
				if vs, ok := sp.(*ast.ValueSpec); ok {
					for _, v := range vs.Values {
						w.expr(v, false)
					}
				}
			}
		}
	case *ast.ReturnStmt:
		for _, r := range x.Results {
			w.expr(r, false)
		}
		w.checkLeak(x)
	case *ast.DeferStmt:
		// defer x.Unlock(): the lock stays held to the end of the function; other deferred calls are
		// analysed as calls made at this point (conservative for lock order: they run with at least
		// the locks that are never released)
		if sel, ok := x.Call.Fun.(*ast.SelectorExpr); ok && (sel.Sel.Name == "Unlock" || sel.Sel.Name == "RUnlock") {
			isMu := false
			if tv, ok := w.p.TypesInfo.Types[sel.X]; ok {
				isMu, _ = isMutexType(tv.Type)
			}
			if !isMu {
				if _, ok := sel.X.(*ast.Ident); ok && w.isEmbeddedMutexCall(sel) {
					isMu = true
				}
			}
			if isMu {
				class := w.la.lockClass(w.p, sel.X)
				if a, ok := w.la.lockAlias[class]; ok {
					class = a
				}
				if w.deferred == nil {
					w.deferred = map[string]bool{}
				}
				w.deferred[class] = true
				return
			}
		}
		w.expr(x.Call, false)
	case *ast.GoStmt:
		// the spawned function starts with no locks held
		if fl, ok := x.Call.Fun.(*ast.FuncLit); ok {
			for _, a := range x.Call.Args {
				w.expr(a, false)
			}
			w.la.walkLit(w.p, fl, w.private)
		} else {
			for _, a := range x.Call.Args {
				w.expr(a, false)
			}
		}
	case *ast.IfStmt:
		w.stmt(x.Init)
		w.expr(x.Cond, false)
		thenH := w.branch(func() { w.stmts(x.Body.List) })
		elseH := copyHeld(w.held)
		if x.Else != nil {
			elseH = w.branch(func() { w.stmt(x.Else) })
		}
		switch {
		case terminates(x.Body):
			w.held = elseH
		case x.Else != nil && terminatesStmt(x.Else):
			w.held = thenH
		default:
			w.held = intersect(thenH, elseH)
		}
	case *ast.ForStmt:
		w.stmt(x.Init)
		if x.Cond != nil {
			w.expr(x.Cond, false)
		}
		h := w.branch(func() { w.stmts(x.Body.List); w.stmt(x.Post) })
		w.held = intersect(w.held, h)
	case *ast.RangeStmt:
		w.expr(x.X, false)
		h := w.branch(func() { w.stmts(x.Body.List) })
		w.held = intersect(w.held, h)
	case *ast.SwitchStmt:
		w.stmt(x.Init)
		if x.Tag != nil {
			w.expr(x.Tag, false)
		}
		w.clauses(x.Body)
	case *ast.TypeSwitchStmt:
		w.stmt(x.Init)
		w.stmt(x.Assign)
		w.clauses(x.Body)
	case *ast.SelectStmt:
		if len(w.held) > 0 {
			w.la.blocking = append(w.la.blocking, fmt.Sprintf("%s: select while holding %v in %s", w.la.where(w.p, x), w.held, w.fnName))
		}
		w.clauses(x.Body)
	case *ast.SendStmt:
		if len(w.held) > 0 {
			w.la.blocking = append(w.la.blocking, fmt.Sprintf("%s: channel send while holding %v in %s", w.la.where(w.p, x), w.held, w.fnName))
		}
		w.expr(x.Chan, false)
		w.expr(x.Value, false)
	case *ast.LabeledStmt:
		w.stmt(x.Stmt)
	case *ast.CommClause:
		w.stmt(x.Comm)
		w.stmts(x.Body)
	case *ast.CaseClause:
		for _, e := range x.List {
			w.expr(e, false)
		}
		w.stmts(x.Body)
	}
}

// checkLeak: returning with a lock still held that no deferred unlock will release.
func (w *walker) checkLeak(at ast.Node) {
	for _, h := range w.held {
		if !w.deferred[h.class] {
			w.la.leaks = append(w.la.leaks, fmt.Sprintf("%s: %s returns with %s held", w.la.where(w.p, at), w.fnName, h.class))
		}
	}
}

func terminatesStmt(s ast.Stmt) bool {
	if b, ok := s.(*ast.BlockStmt); ok {
		return terminates(b)
	}
	return false
}

func (w *walker) clauses(b *ast.BlockStmt) {
	var merged []heldLock
	first := true
	for _, c := range b.List {
		h := w.branch(func() { w.stmt(c) })
		if first {
			merged, first = h, false
		} else {
			merged = intersect(merged, h)
		}
	}
	if !first {
		w.held = intersect(w.held, merged)
	}
}

func isFreshStruct(e ast.Expr) bool {
	switch x := e.(type) {
	case *ast.UnaryExpr:
		if x.Op == token.AND {
			_, ok := x.X.(*ast.CompositeLit)
			return ok
		}
	case *ast.CompositeLit:
		return true
	case *ast.CallExpr:
		return exprString(x.Fun) == "new"
	}
	return false
}

func (w *walker) isEmbeddedMutexCall(sel *ast.SelectorExpr) bool {
	if s, ok := w.p.TypesInfo.Selections[sel]; ok && s.Kind() == types.MethodVal {
		if f, ok := s.Obj().(*types.Func); ok && f.Pkg() != nil && f.Pkg().Path() == "sync" {
			return true
		}
	}
	return false
}

func (w *walker) expr(e ast.Expr, write bool) {
	switch x := e.(type) {
	case nil:
	case *ast.ParenExpr:
		w.expr(x.X, write)
	case *ast.SelectorExpr:
		w.selector(x, write)
	case *ast.IndexExpr:
		w.expr(x.X, write) // m.f[k] = v writes the container
		w.expr(x.Index, false)
	case *ast.SliceExpr:
		w.expr(x.X, false)
		w.expr(x.Low, false)
		w.expr(x.High, false)
	case *ast.StarExpr:
		w.expr(x.X, write)
	case *ast.UnaryExpr:
		if x.Op == token.ARROW && len(w.held) > 0 {
			w.la.blocking = append(w.la.blocking, fmt.Sprintf("%s: channel receive while holding %v in %s", w.la.where(w.p, x), w.held, w.fnName))
		}
		w.expr(x.X, false)
	case *ast.BinaryExpr:
		w.expr(x.X, false)
		w.expr(x.Y, false)
	case *ast.KeyValueExpr:
		w.expr(x.Value, false)
	case *ast.CompositeLit:
		for _, el := range x.Elts {
			w.expr(el, false)
		}
	case *ast.TypeAssertExpr:
		w.expr(x.X, false)
	case *ast.FuncLit:
		// defined here, runs later (stored or passed): analysed on its own, starting with no locks
		w.la.walkLit(w.p, x, w.private)
	case *ast.CallExpr:
		w.call(x)
	}
}

func (w *walker) selector(x *ast.SelectorExpr, write bool) {
	sel, ok := w.p.TypesInfo.Selections[x]
	if ok && sel.Kind() == types.FieldVal {
		if v, ok := sel.Obj().(*types.Var); ok && v.Pkg() != nil && strings.HasPrefix(v.Pkg().Path(), "github.com/Jigsaw-Code/outline-ss-server") {
			st := typeNameOf(sel.Recv())
			if st != "" {
				if m, _ := isMutexType(v.Type()); !m {
					prepub := false
					if id, ok := x.X.(*ast.Ident); ok {
						if obj := w.p.TypesInfo.ObjectOf(id); obj != nil && w.private[obj] {
							prepub = true
						}
					}
					w.la.accesses = append(w.la.accesses, accessFact{strct: st, field: x.Sel.Name, fn: w.fnName, write: write,
						held: copyHeld(w.held), section: w.sectionOf(), prepub: prepub, where: w.la.where(w.p, x)})
				}
			}
		}
	}
	w.expr(x.X, false)
}

func (w *walker) sectionOf() int {
	if len(w.held) == 0 {
		return 0
	}
	return w.section
}

func (w *walker) call(c *ast.CallExpr) {
	// lock operations
	if sel, ok := c.Fun.(*ast.SelectorExpr); ok {
		name := sel.Sel.Name
		if name == "Lock" || name == "RLock" || name == "Unlock" || name == "RUnlock" {
			isMu := false
			if tv, ok := w.p.TypesInfo.Types[sel.X]; ok {
				isMu, _ = isMutexType(tv.Type)
			}
			if !isMu && w.isEmbeddedMutexCall(sel) {
				isMu = true
			}
			if isMu {
				class := w.la.lockClass(w.p, sel.X)
				if a, ok := w.la.lockAlias[class]; ok {
					class = a
				}
				switch name {
				case "Lock", "RLock":
					for _, h := range w.held {
						k := h.class + "->" + class
						if old, dup := w.la.edges[k]; !dup || w.la.where(w.p, c)+" ("+w.fnName+")" < old.where {
							w.la.edges[k] = edgeFact{h.class, class, w.la.where(w.p, c) + " (" + w.fnName + ")"}
						}
					}
					w.fn.acquires[class] = true
					w.held = append(w.held, heldLock{class, name == "Lock"})
					w.section++
				default:
					for i := len(w.held) - 1; i >= 0; i-- {
						if w.held[i].class == class {
							w.held = append(w.held[:i], w.held[i+1:]...)
							break
						}
					}
				}
				return
			}
		}
	}
	// builtins that write their first argument
	if id, ok := c.Fun.(*ast.Ident); ok && (id.Name == "delete" || id.Name == "clear") && len(c.Args) > 0 {
		w.expr(c.Args[0], true)
		for _, a := range c.Args[1:] {
			w.expr(a, false)
		}
		return
	}
	if id, ok := c.Fun.(*ast.Ident); ok && id.Name == "close" {
		for _, a := range c.Args {
			w.expr(a, false)
		}
		return
	}
	callees := w.la.resolveCallees(w.p, c)
	w.fn.calls = append(w.fn.calls, callSite{callee: callees, held: copyHeld(w.held), where: w.la.where(w.p, c) + " (" + w.fnName + ")"})
	// function literals passed as arguments are remembered for the callee's parameters
	w.la.bindArgs(w.p, c)
	w.expr(c.Fun, false)
	for _, a := range c.Args {
		w.expr(a, false)
	}
}

func (la *lockAnalysis) fnID(p *packages.Package, fl *ast.FuncLit) string {
	if id, ok := la.litOf[fl]; ok {
		return id
	}
	id := "func@" + la.where(p, fl) // only for literals outside any declaration (package-level vars)
	la.litOf[fl] = id
	return id
}

// nameLiterals gives every function literal a name that survives line shifts:
// "<enclosing declaration>$<n>" in source order, nested literals "<outer>$<n>$<m>".
func (la *lockAnalysis) nameLiterals() {
	for _, p := range la.pkgs {
		for _, f := range p.Syntax {
			for _, d := range f.Decls {
				fd, ok := d.(*ast.FuncDecl)
				if !ok || fd.Body == nil {
					continue
				}
				obj, _ := p.TypesInfo.Defs[fd.Name].(*types.Func)
				if obj == nil {
					continue
				}
				la.nameLitsIn(fd.Body, funcObjID(obj))
			}
		}
	}
}

func (la *lockAnalysis) nameLitsIn(n ast.Node, outer string) {
	k := 0
	ast.Inspect(n, func(m ast.Node) bool {
		if fl, ok := m.(*ast.FuncLit); ok {
			k++
			id := fmt.Sprintf("%s$%d", outer, k)
			la.litOf[fl] = id
			la.nameLitsIn(fl.Body, id)
			return false
		}
		return true
	})
}

func (la *lockAnalysis) getFn(id string) *fnInfo {
	if f, ok := la.funcs[id]; ok {
		return f
	}
	f := &fnInfo{id: id, acquires: map[string]bool{}}
	la.funcs[id] = f
	return f
}

func (la *lockAnalysis) walkLit(p *packages.Package, fl *ast.FuncLit, private map[types.Object]bool) {
	id := la.fnID(p, fl)
	if f, ok := la.funcs[id]; ok && f.all != nil {
		return
	}
	fn := la.getFn(id)
	fn.all = map[string]bool{}
	w := &walker{la: la, p: p, fn: fn, fnName: id, private: map[types.Object]bool{}, reassigned: map[types.Object]bool{}}
	for k, v := range private {
		w.private[k] = v
	}
	w.stmts(fl.Body.List)
}

// resolveCallees: ids of the functions a call may run.
func (la *lockAnalysis) resolveCallees(p *packages.Package, c *ast.CallExpr) []string {
	switch f := c.Fun.(type) {
	case *ast.FuncLit:
		return []string{la.fnID(p, f)}
	case *ast.Ident:
		switch obj := p.TypesInfo.Uses[f].(type) {
		case *types.Func:
			return []string{funcObjID(obj)}
		case *types.Var: // local variable or parameter of func type
			return append(append([]string{}, la.fieldFns[obj]...), la.paramFns[obj]...)
		}
	case *ast.SelectorExpr:
		if sel, ok := p.TypesInfo.Selections[f]; ok {
			switch sel.Kind() {
			case types.MethodVal:
				m := sel.Obj().(*types.Func)
				if types.IsInterface(sel.Recv()) {
					return la.ifaceCallees(p, f.X, sel.Recv(), m.Name())
				}
				return []string{funcObjID(m)}
			case types.FieldVal: // x.onCloseFunc()
				if v, ok := sel.Obj().(*types.Var); ok {
					return append(append([]string{}, la.fieldFns[v]...), la.paramFns[v]...)
				}
			}
		} else if obj, ok := p.TypesInfo.Uses[f.Sel].(*types.Func); ok { // pkg.Func
			return []string{funcObjID(obj)}
		}
	}
	return nil
}

func funcObjID(f *types.Func) string {
	sig := f.Type().(*types.Signature)
	if r := sig.Recv(); r != nil {
		return typeNameOf(r.Type()) + "." + f.Name()
	}
	if f.Pkg() != nil {
		return filepath.Base(f.Pkg().Path()) + "." + f.Name()
	}
	return f.Name()
}

// implementations of an interface method among the named types of the analysed packages.
func (la *lockAnalysis) implementations(iface types.Type, method string) []string {
	key := iface.String() + "#" + method
	if r, ok := la.implsMemo[key]; ok {
		return r
	}
	it, _ := iface.Underlying().(*types.Interface)
	var out []string
	if it != nil {
		for _, p := range la.pkgs {
			sc := p.Types.Scope()
			for _, n := range sc.Names() {
				tn, ok := sc.Lookup(n).(*types.TypeName)
				if !ok || types.IsInterface(tn.Type()) {
					continue
				}
				for _, t := range []types.Type{tn.Type(), types.NewPointer(tn.Type())} {
					ms := types.NewMethodSet(t)
					if sel := ms.Lookup(p.Types, method); sel != nil {
						if hasMethods(ms, it, p.Types) {
							out = append(out, funcObjID(sel.Obj().(*types.Func)))
							break
						}
					}
				}
			}
		}
	}
	la.implsMemo[key] = out
	return out
}

// hasMethods: structural check by method names (generic interfaces make types.Implements awkward).
func hasMethods(ms *types.MethodSet, it *types.Interface, pkg *types.Package) bool {
	for i := 0; i < it.NumMethods(); i++ {
		if ms.Lookup(it.Method(i).Pkg(), it.Method(i).Name()) == nil && ms.Lookup(pkg, it.Method(i).Name()) == nil {
			return false
		}
	}
	return true
}

// bindArgs remembers which function values flow into func-typed parameters (one level).
func (la *lockAnalysis) bindArgs(p *packages.Package, c *ast.CallExpr) {
	var sig *types.Signature
	if tv, ok := p.TypesInfo.Types[c.Fun]; ok {
		sig, _ = tv.Type.Underlying().(*types.Signature)
	}
	if sig == nil {
		return
	}
	for i, a := range c.Args {
		if i >= sig.Params().Len() {
			break
		}
		ids := la.funcValueIDs(p, a)
		if len(ids) > 0 {
			pv := sig.Params().At(i)
			la.paramFns[pv] = appendUniq(la.paramFns[pv], ids...)
		}
	}
}

func appendUniq(l []string, xs ...string) []string {
	for _, x := range xs {
		dup := false
		for _, y := range l {
			if x == y {
				dup = true
			}
		}
		if !dup {
			l = append(l, x)
		}
	}
	return l
}

// funcValueIDs: which functions an expression of func type may denote.
func (la *lockAnalysis) funcValueIDs(p *packages.Package, e ast.Expr) []string {
	switch x := e.(type) {
	case *ast.FuncLit:
		return []string{la.fnID(p, x)}
	case *ast.Ident:
		switch obj := p.TypesInfo.Uses[x].(type) {
		case *types.Func:
			return []string{funcObjID(obj)}
		case *types.Var:
			if _, ok := obj.Type().Underlying().(*types.Signature); ok {
				return append(append([]string{}, la.fieldFns[obj]...), la.paramFns[obj]...)
			}
		}
	case *ast.SelectorExpr:
		if sel, ok := p.TypesInfo.Selections[x]; ok {
			switch sel.Kind() {
			case types.MethodVal:
				m := sel.Obj().(*types.Func)
				if types.IsInterface(sel.Recv()) {
					return la.ifaceCallees(p, x.X, sel.Recv(), m.Name())
				}
				return []string{funcObjID(m)}
			case types.FieldVal:
				if v, ok := sel.Obj().(*types.Var); ok {
					return append(append([]string{}, la.fieldFns[v]...), la.paramFns[v]...)
				}
			}
		}
	case *ast.IndexExpr: // m.funcs[k]
		return la.funcValueIDs(p, x.X)
	}
	return nil
}

// ifaceCallees: the methods an interface call may run, narrowed by the concrete types that can
// reach the receiver expression; falls back to every implementation when that is unknown.
func (la *lockAnalysis) ifaceCallees(p *packages.Package, recv ast.Expr, iface types.Type, method string) []string {
	ts := la.valueTypes(p, recv, 0)
	if len(ts) == 0 || ts["?"] {
		return la.implementations(iface, method)
	}
	var out []string
	for t := range ts {
		if t == "ext" {
			continue
		}
		out = append(out, t+"."+method)
	}
	sort.Strings(out)
	return out
}

// valueTypes: names of the concrete in-package types an interface-typed expression may hold.
func (la *lockAnalysis) valueTypes(p *packages.Package, e ast.Expr, depth int) map[string]bool {
	out := map[string]bool{}
	if depth > 6 {
		out["?"] = true
		return out
	}
	add := func(m map[string]bool) {
		for k := range m {
			out[k] = true
		}
	}
	if tv, ok := p.TypesInfo.Types[e]; ok && tv.Type != nil && !types.IsInterface(tv.Type) && !isContainer(tv.Type) {
		// a concrete static type
		if tn := typeNameOf(tv.Type); tn != "" {
			if n, ok := derefNamed(tv.Type); ok && n.Obj().Pkg() != nil && strings.HasPrefix(n.Obj().Pkg().Path(), "github.com/Jigsaw-Code/outline-ss-server") {
				out[tn] = true
			} else {
				out["ext"] = true
			}
			return out
		}
		out["ext"] = true
		return out
	}
	switch x := e.(type) {
	case *ast.ParenExpr:
		return la.valueTypes(p, x.X, depth)
	case *ast.Ident:
		if v, ok := p.TypesInfo.ObjectOf(x).(*types.Var); ok {
			if ft, ok := la.fieldTypes[v]; ok && len(ft) > 0 && !la.params[v] {
				add(ft)
				return out
			}
		}
		out["?"] = true
	case *ast.SelectorExpr:
		if sel, ok := p.TypesInfo.Selections[x]; ok && sel.Kind() == types.FieldVal {
			if v, ok := sel.Obj().(*types.Var); ok {
				if ft, ok := la.fieldTypes[v]; ok && len(ft) > 0 {
					add(ft)
					return out
				}
			}
		}
		out["?"] = true
	case *ast.CallExpr:
		ids := la.resolveCallees(p, x)
		if len(ids) == 0 {
			out["ext"] = true // a function outside the analysed packages
			return out
		}
		for _, id := range ids {
			if _, ok := la.funcDecls[id]; ok {
				add(la.returnTypes(id, depth+1))
			} else if _, ok := la.funcs[id]; ok || (strings.HasPrefix(id, "func@") || strings.Contains(id, "$")) {
				out["?"] = true // a function literal: result not tracked
			} else {
				out["ext"] = true // declared outside the analysed packages
			}
		}
	case *ast.TypeAssertExpr:
		return la.valueTypes(p, x.X, depth)
	case *ast.IndexExpr: // m.field[k]: what was stored into the map field
		return la.valueTypes(p, x.X, depth)
	default:
		out["?"] = true
	}
	return out
}

func isContainer(t types.Type) bool {
	switch t.Underlying().(type) {
	case *types.Map, *types.Slice, *types.Array, *types.Tuple:
		return true
	}
	return false
}

func derefNamed(t types.Type) (*types.Named, bool) {
	for {
		if p, ok := t.(*types.Pointer); ok {
			t = p.Elem()
			continue
		}
		break
	}
	n, ok := t.(*types.Named)
	return n, ok
}

// returnTypes: concrete types of the first result of an in-package function.
func (la *lockAnalysis) returnTypes(id string, depth int) map[string]bool {
	if m, ok := la.retMemo[id]; ok {
		return m
	}
	out := map[string]bool{}
	la.retMemo[id] = out // recursion guard
	fd, ok := la.funcDecls[id]
	if !ok || fd.body == nil {
		out["?"] = true
		return out
	}
	ast.Inspect(fd.body, func(n ast.Node) bool {
		if _, isLit := n.(*ast.FuncLit); isLit {
			return false
		}
		if rs, ok := n.(*ast.ReturnStmt); ok && len(rs.Results) > 0 {
			if id0, isId := rs.Results[0].(*ast.Ident); isId && id0.Name == "nil" {
				return true
			}
			for k := range la.valueTypes(fd.p, rs.Results[0], depth) {
				out[k] = true
			}
		}
		return true
	})
	return out
}

// collectFuncFields: which function values are stored in func-typed struct fields and variables.
func (la *lockAnalysis) collectFuncFields() {
	for iter := 0; iter < 6; iter++ { // a few rounds: values flow through parameters into fields
		la.finalRound = iter == 5
		la.retMemo = map[string]map[string]bool{}
		for _, p := range la.pkgs {
			for _, f := range p.Syntax {
				ast.Inspect(f, func(n ast.Node) bool {
					switch x := n.(type) {
					case *ast.CompositeLit:
						for _, el := range x.Elts {
							kv, ok := el.(*ast.KeyValueExpr)
							if !ok {
								continue
							}
							key, ok := kv.Key.(*ast.Ident)
							if !ok {
								continue
							}
							if v, ok := p.TypesInfo.Uses[key].(*types.Var); ok && v.IsField() {
								la.noteStore(p, v, kv.Value)
							}
						}
					case *ast.AssignStmt:
						for i, l := range x.Lhs {
							if i >= len(x.Rhs) {
								break
							}
							var v *types.Var
							switch lx := l.(type) {
							case *ast.SelectorExpr:
								if sel, ok := p.TypesInfo.Selections[lx]; ok && sel.Kind() == types.FieldVal {
									v, _ = sel.Obj().(*types.Var)
								}
							case *ast.Ident:
								v, _ = p.TypesInfo.ObjectOf(lx).(*types.Var)
								if v != nil && len(x.Rhs) == 1 && len(x.Lhs) > 1 && i == 0 {
									// v, err := f(): the first result
								}
							}
							if ix, isIx := l.(*ast.IndexExpr); isIx { // m.f[k] = v
								if sx, ok := ix.X.(*ast.SelectorExpr); ok {
									if sel, ok := p.TypesInfo.Selections[sx]; ok && sel.Kind() == types.FieldVal {
										v, _ = sel.Obj().(*types.Var)
									}
								}
							}
							if v != nil {
								la.noteStore(p, v, x.Rhs[i])
							}
						}
					case *ast.CallExpr:
						la.bindArgs(p, x)
					case *ast.RangeStmt: // for _, f := range x.funcs
						if id, ok := x.Value.(*ast.Ident); ok {
							if v, ok := p.TypesInfo.ObjectOf(id).(*types.Var); ok {
								la.fieldFns[v] = appendUniq(la.fieldFns[v], la.funcValueIDs(p, x.X)...)
							}
						}
					}
					return true
				})
			}
		}
	}
}

// noteStore records what is stored into a field or variable: function values, concrete types of
// interface values, and what a *sync.Mutex field points to.
func (la *lockAnalysis) noteStore(p *packages.Package, v *types.Var, rhs ast.Expr) {
	switch ut := v.Type().Underlying().(type) {
	case *types.Signature:
		la.fieldFns[v] = appendUniq(la.fieldFns[v], la.funcValueIDs(p, rhs)...)
	case *types.Map:
		if _, isFn := ut.Elem().Underlying().(*types.Signature); isFn {
			la.fieldFns[v] = appendUniq(la.fieldFns[v], la.funcValueIDs(p, rhs)...)
		}
		if types.IsInterface(ut.Elem()) {
			if _, isMake := rhs.(*ast.CallExpr); isMake && strings.HasPrefix(exprString(rhs), "make(") {
				return
			}
			if la.fieldTypes[v] == nil {
				la.fieldTypes[v] = map[string]bool{}
			}
			for k := range la.valueTypes(p, rhs, 0) {
				if k == "?" && !la.finalRound {
					continue
				}
				la.fieldTypes[v][k] = true
			}
		}
	case *types.Interface:
		if id, ok := rhs.(*ast.Ident); ok && id.Name == "nil" {
			return
		}
		if la.fieldTypes[v] == nil {
			la.fieldTypes[v] = map[string]bool{}
		}
		for k := range la.valueTypes(p, rhs, 0) {
			if k == "?" && !la.finalRound {
				continue // may become known in a later round
			}
			la.fieldTypes[v][k] = true
		}
	case *types.Pointer:
		if m, _ := isMutexType(ut.Elem()); m {
			if u, ok := rhs.(*ast.UnaryExpr); ok && u.Op == token.AND {
				if v.IsField() {
					// owner struct name: find it through the selector/composite context is awkward; use the
					// field's position-independent name "<Struct>.<field>" resolved by scanning named types
					if owner := la.ownerOf(v); owner != "" {
						la.lockAlias[owner+"."+v.Name()] = la.lockClass(p, u.X)
					}
				}
			}
		}
	}
}

func (la *lockAnalysis) ownerOf(f *types.Var) string {
	for _, p := range la.pkgs {
		sc := p.Types.Scope()
		for _, n := range sc.Names() {
			if tn, ok := sc.Lookup(n).(*types.TypeName); ok {
				if st, ok := tn.Type().Underlying().(*types.Struct); ok {
					for i := 0; i < st.NumFields(); i++ {
						if st.Field(i) == f {
							return tn.Name()
						}
					}
				}
			}
		}
	}
	return ""
}

func (la *lockAnalysis) collectParams() {
	la.params = map[*types.Var]bool{}
	for _, p := range la.pkgs {
		for _, f := range p.Syntax {
			ast.Inspect(f, func(n ast.Node) bool {
				var ft *ast.FuncType
				switch x := n.(type) {
				case *ast.FuncDecl:
					ft = x.Type
				case *ast.FuncLit:
					ft = x.Type
				}
				if ft != nil && ft.Params != nil {
					for _, fld := range ft.Params.List {
						for _, nm := range fld.Names {
							if v, ok := p.TypesInfo.ObjectOf(nm).(*types.Var); ok {
								la.params[v] = true
							}
						}
					}
				}
				return true
			})
		}
	}
}

func (la *lockAnalysis) run() {
	la.collectParams()
	la.nameLiterals()
	for _, p := range la.pkgs {
		for _, f := range p.Syntax {
			for _, d := range f.Decls {
				if fd, ok := d.(*ast.FuncDecl); ok && fd.Body != nil {
					if obj, _ := p.TypesInfo.Defs[fd.Name].(*types.Func); obj != nil {
						la.funcDecls[funcObjID(obj)] = &funcDeclInfo{p: p, body: fd.Body, typ: obj.Type().(*types.Signature)}
					}
				}
			}
		}
	}
	la.collectFuncFields()
	for _, p := range la.pkgs {
		for _, f := range p.Syntax {
			for _, d := range f.Decls {
				fd, ok := d.(*ast.FuncDecl)
				if !ok || fd.Body == nil {
					continue
				}
				obj, _ := p.TypesInfo.Defs[fd.Name].(*types.Func)
				if obj == nil {
					continue
				}
				id := funcObjID(obj)
				fn := la.getFn(id)
				fn.all = map[string]bool{}
				w := &walker{la: la, p: p, fn: fn, fnName: id, private: map[types.Object]bool{}, reassigned: map[types.Object]bool{}}
				w.stmts(fd.Body.List)
				if !terminates(fd.Body) {
					w.checkLeak(fd.Body)
				}
			}
		}
	}
	// transitive acquisitions
	for changed := true; changed; {
		changed = false
		for _, f := range la.funcs {
			if f.all == nil {
				f.all = map[string]bool{}
			}
			for c := range f.acquires {
				if !f.all[c] {
					f.all[c], changed = true, true
				}
			}
			for _, cs := range f.calls {
				for _, cal := range cs.callee {
					if g, ok := la.funcs[cal]; ok {
						for c := range g.all {
							if !f.all[c] {
								f.all[c], changed = true, true
							}
						}
					}
				}
			}
		}
	}
	// interprocedural lock-order edges
	for _, f := range la.funcs {
		for _, cs := range f.calls {
			if len(cs.held) == 0 {
				continue
			}
			for _, cal := range cs.callee {
				g, ok := la.funcs[cal]
				if !ok {
					continue
				}
				for c := range g.all {
					for _, h := range cs.held {
						k := h.class + "->" + c
						// keep the lexicographically smallest witness: the fact file must not depend on map iteration order
						if old, dup := la.edges[k]; !dup || cs.where+" calls "+cal < old.where {
							la.edges[k] = edgeFact{h.class, c, cs.where + " calls " + cal}
						}
					}
				}
			}
		}
	}
}

func genLockFacts() {
	cfg := &packages.Config{Mode: packages.NeedName | packages.NeedSyntax | packages.NeedTypes | packages.NeedTypesInfo | packages.NeedImports | packages.NeedDeps | packages.NeedFiles,
		Dir: repo}
	pkgs, err := packages.Load(cfg, "./service", "./prometheus", "./cmd/outline-ss-server")
	if err != nil || len(pkgs) != 3 {
		miss("lock facts: packages.Load: %v", err)
		return
	}
	for _, p := range pkgs {
		for _, e := range p.Errors {
			miss("lock facts: %s: %v", p.PkgPath, e)
		}
	}
	la := &lockAnalysis{pkgs: pkgs, edges: map[string]edgeFact{}, funcs: map[string]*fnInfo{}, litOf: map[*ast.FuncLit]string{},
		fieldFns: map[*types.Var][]string{}, paramFns: map[*types.Var][]string{}, implsMemo: map[string][]string{},
		fieldTypes: map[*types.Var]map[string]bool{}, funcDecls: map[string]*funcDeclInfo{}, lockAlias: map[string]string{},
		retMemo: map[string]map[string]bool{}}
	la.run()
	la.applyEntryHeld()
	if os.Getenv("VERIF_EXTRACT_DEBUG") != "" {
		la.debugDump()
	}

	l := newLean("LockFacts.lean")
	l.p("namespace OutlineModel.Gen.LockFacts")
	l.p("structure Access where")
	l.p("  strct : String")
	l.p("  field : String")
	l.p("  fn : String")
	l.p("  write : Bool")
	l.p("  held : List (String × Bool)   -- (lock class, exclusive)")
	l.p("  sect : Nat                  -- ordinal of the critical section inside fn (0 = no lock held)")
	l.p("  prepub : Bool               -- object still private to the function that builds it")
	l.p("deriving Repr, DecidableEq")
	sort.SliceStable(la.accesses, func(i, j int) bool {
		a, b := la.accesses[i], la.accesses[j]
		if a.strct != b.strct {
			return a.strct < b.strct
		}
		if a.field != b.field {
			return a.field < b.field
		}
		return a.where < b.where
	})
	l.p("def accesses : List Access := [")
	first := true
	for _, a := range la.accesses {
		var hs []string
		for _, h := range a.held {
			hs = append(hs, fmt.Sprintf("(%s, %v)", leanStr(h.class), h.excl))
		}
		sep := ","
		if first {
			sep, first = " ", false
		}
		l.p("  %s{ strct := %s, field := %s, fn := %s, write := %v, held := [%s], sect := %d, prepub := %v }  -- %s",
			sep, leanStr(a.strct), leanStr(a.field), leanStr(a.fn), a.write, strings.Join(hs, ", "), a.section, a.prepub, a.where)
	}
	l.p("]")
	var keys []string
	for k := range la.edges {
		keys = append(keys, k)
	}
	sort.Strings(keys)
	l.p("/-- lock-order edges: `to` is acquired while `from` is held (directly or through the call graph) -/")
	l.p("def lockEdges : List (String × String) := [")
	for i, k := range keys {
		e := la.edges[k]
		sep := ","
		if i == 0 {
			sep = " "
		}
		l.p("  %s(%s, %s)  -- %s", sep, leanStr(e.from), leanStr(e.to), e.where)
	}
	l.p("]")
	sort.Strings(la.blocking)
	l.p("/-- channel operations performed while a lock is held -/")
	l.p("def blockingUnderLock : List String := [")
	for i, b := range la.blocking {
		sep := ","
		if i == 0 {
			sep = " "
		}
		l.p("  %s%s", sep, leanStr(b))
	}
	l.p("]")
	sort.Strings(la.leaks)
	l.p("/-- function exits that leave a lock held with no deferred unlock -/")
	l.p("def lockLeaks : List String := [")
	for i, b := range la.leaks {
		sep := ","
		if i == 0 {
			sep = " "
		}
		l.p("  %s%s", sep, leanStr(b))
	}
	l.p("]")
	l.p("end OutlineModel.Gen.LockFacts")
	l.write()
}

func (la *lockAnalysis) debugDump() {
	for v, m := range la.fieldTypes {
		var ks []string
		for k := range m {
			ks = append(ks, k)
		}
		sort.Strings(ks)
		fmt.Printf("DBG fieldTypes %s (%s) = %v\n", v.Name(), v.Type(), ks)
	}
	for _, id := range []string{"multiStreamListener.Acquire", "listenerManager.ListenStream", "service.NewMultiStreamListener", "listenerSet.ListenStream"} {
		fmt.Printf("DBG returnTypes %s = %v (decl=%v)\n", id, la.returnTypes(id, 0), la.funcDecls[id] != nil)
	}
	for k, a := range la.lockAlias {
		fmt.Printf("DBG alias %s -> %s\n", k, a)
	}
	for id, f := range la.funcs {
		if strings.Contains(id, "managed") || strings.Contains(id, "listenerSet.Close") {
			for _, c := range f.calls {
				fmt.Printf("DBG call in %s: %v held=%v %s\n", id, c.callee, c.held, c.where)
			}
		}
	}
}

// applyEntryHeld: an unexported function or method that is only ever called (inside the analysed
// packages) with some lock held runs with that lock held: its accesses inherit the locks common to
// all its call sites.  Exported functions, function literals and anything whose address is taken
// (method values, interface implementations) get nothing.
func (la *lockAnalysis) applyEntryHeld() {
	type site struct {
		caller string
		held   []heldLock
	}
	sites := map[string][]site{}
	for id, f := range la.funcs {
		for _, cs := range f.calls {
			for _, cal := range cs.callee {
				sites[cal] = append(sites[cal], site{id, cs.held})
			}
		}
	}
	eligible := func(id string) bool {
		if strings.HasPrefix(id, "func@") || strings.Contains(id, "$") {
			return false
		}
		name := id[strings.LastIndex(id, ".")+1:]
		if name == "" || (name[0] >= 'A' && name[0] <= 'Z') {
			return false
		}
		return len(sites[id]) > 0
	}
	entry := map[string][]heldLock{}
	top := map[string]bool{}
	for id := range la.funcs {
		if eligible(id) {
			top[id] = true
		}
	}
	for round := 0; round < 8; round++ {
		for id := range la.funcs {
			if !eligible(id) {
				continue
			}
			var acc []heldLock
			first := true
			for _, s := range sites[id] {
				if top[s.caller] {
					continue // caller not computed yet: optimistic
				}
				h := append(copyHeld(s.held), entry[s.caller]...)
				if first {
					acc, first = h, false
				} else {
					acc = intersect(acc, h)
				}
			}
			if !first {
				entry[id] = acc
				delete(top, id)
			}
		}
	}
	for id := range top {
		entry[id] = nil
	}
	for i := range la.accesses {
		a := &la.accesses[i]
		if eh := entry[a.fn]; len(eh) > 0 {
			for _, h := range eh {
				dup := false
				for _, x := range a.held {
					if x.class == h.class {
						dup = true
					}
				}
				if !dup {
					a.held = append(a.held, h)
				}
			}
			if a.section == 0 {
				a.section = 1
			}
		}
	}
}
