module verif/extract

go 1.21

require (
	github.com/Jigsaw-Code/outline-sdk v0.0.14
	github.com/Jigsaw-Code/outline-ss-server v0.0.0
	github.com/shadowsocks/go-shadowsocks2 v0.1.5
	golang.org/x/tools v0.16.0
)

require (
	golang.org/x/crypto v0.17.0 // indirect
	golang.org/x/mod v0.14.0 // indirect
	golang.org/x/sys v0.16.0 // indirect
)

replace github.com/Jigsaw-Code/outline-ss-server => /repo
