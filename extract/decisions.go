package main

import (
	"go/ast"
	"go/token"
	"sort"
	"strings"
)

// Decision tables: the ORDER and the OUTCOMES of small decision functions, as data.  The Lean side
// states, by `decide`, that the generated table is the one its model implements; reordering two
// checks, adding an outcome or renaming a label or status in the Go source changes the table and
// breaks that obligation before any campaign runs.
//
//   Gen/Decisions.lean
//     ipInfoLabels       : the four special location codes (constant name, value)
//     ipInfoFromIPSteps  : GetIPInfoFromIP's guards in source order: (condition, constant assigned to CountryCode or "")
//     requirePublicSteps : RequirePublicIP's guards in source order: (condition, status returned)
//     drainResults       : the string literals drainErrToString can return, and whether it returns anything else
//     tcpStatuses / udpStatuses / netStatuses : status literals given to NewConnectionError / ensureConnectionError per file

func stringLit(e ast.Expr) (string, bool) {
	if b, ok := e.(*ast.BasicLit); ok && b.Kind == token.STRING {
		return strings.Trim(b.Value, "\"`"), true
	}
	return "", false
}

// guardSteps walks the top-level if statements of a function body in order
func guardSteps(body *ast.BlockStmt, f func(is *ast.IfStmt) (string, bool)) [][2]string {
	var out [][2]string
	if body == nil {
		return nil
	}
	for _, st := range body.List {
		if is, ok := st.(*ast.IfStmt); ok {
			if v, ok := f(is); ok {
				out = append(out, [2]string{exprString(is.Cond), v})
			}
		}
	}
	return out
}

func statusLits(p *Pkg, file string) []string {
	set := map[string]bool{}
	for fn, f := range p.Files {
		if !strings.HasSuffix(fn, file) {
			continue
		}
		for _, d := range f.Decls {
			fd, ok := d.(*ast.FuncDecl)
			if !ok || fd.Body == nil {
				continue
			}
			params := map[string]bool{}
			if fd.Type.Params != nil {
				for _, fl := range fd.Type.Params.List {
					for _, n := range fl.Names {
						params[n.Name] = true
					}
				}
			}
			// string literals a local identifier may hold (const status = "…"; status = "…")
			holds := map[string][]string{}
			ast.Inspect(fd.Body, func(n ast.Node) bool {
				switch x := n.(type) {
				case *ast.AssignStmt:
					for i, lhs := range x.Lhs {
						if id, ok := lhs.(*ast.Ident); ok && i < len(x.Rhs) {
							if s, ok := stringLit(x.Rhs[i]); ok {
								holds[id.Name] = append(holds[id.Name], s)
							}
						}
					}
				case *ast.ValueSpec:
					for i, id := range x.Names {
						if i < len(x.Values) {
							if s, ok := stringLit(x.Values[i]); ok {
								holds[id.Name] = append(holds[id.Name], s)
							}
						}
					}
				}
				return true
			})
			ast.Inspect(fd.Body, func(n ast.Node) bool {
				c, ok := n.(*ast.CallExpr)
				if !ok {
					return true
				}
				name := exprString(c.Fun)
				idx := -1
				switch {
				case strings.HasSuffix(name, "NewConnectionError"):
					idx = 0
				case name == "ensureConnectionError":
					idx = 1
				}
				if idx < 0 || len(c.Args) <= idx {
					return true
				}
				if s, ok := stringLit(c.Args[idx]); ok {
					set[s] = true
				} else if id, ok := c.Args[idx].(*ast.Ident); ok && len(holds[id.Name]) > 0 {
					for _, s := range holds[id.Name] {
						set[s] = true
					}
				} else if id, ok := c.Args[idx].(*ast.Ident); ok && params[id.Name] {
					// forwarded parameter: its values are the literals at the call sites, collected there
				} else {
					set["<non-literal:"+exprString(c.Args[idx])+">"] = true
				}
				return true
			})
		}
	}
	var out []string
	for s := range set {
		out = append(out, s)
	}
	sort.Strings(out)
	return out
}

func leanStrList(l []string) string {
	var q []string
	for _, s := range l {
		q = append(q, leanStr(s))
	}
	return "[" + strings.Join(q, ", ") + "]"
}

func leanPairList(l [][2]string) string {
	var q []string
	for _, s := range l {
		q = append(q, "("+leanStr(s[0])+", "+leanStr(s[1])+")")
	}
	return "[" + strings.Join(q, ", ") + "]"
}

func genDecisions() {
	ipi := loadPkg("ipinfo")
	svc := loadPkg("service")
	onet := loadPkg("net")
	l := newLean("Decisions.lean")
	l.p("namespace OutlineModel.Gen.Decisions")

	// ---- ipinfo: label constants
	var labels [][2]string
	for _, name := range []string{"errParseAddr", "localLocation", "errDbLookupError", "unknownLocation"} {
		if e, _ := ipi.findValue(name); e != nil {
			if s, ok := stringLit(e); ok {
				labels = append(labels, [2]string{name, s})
				continue
			}
		}
		miss("ipinfo.%s is not a string constant", name)
	}
	l.p("/-- the special location codes of ipinfo/ipinfo.go (constant, value) -/")
	l.p("def ipInfoLabels : List (String × String) := %s", leanPairList(labels))

	// ---- GetIPInfoFromIP: guards in order, with the constant each assigns to info.CountryCode
	assigned := func(is *ast.IfStmt) (string, bool) {
		v := ""
		ast.Inspect(is.Body, func(n ast.Node) bool {
			if as, ok := n.(*ast.AssignStmt); ok && len(as.Lhs) == 1 && exprString(as.Lhs[0]) == "info.CountryCode" {
				v = exprString(as.Rhs[0])
			}
			return true
		})
		return v, true
	}
	if fd := ipi.findFunc("", "GetIPInfoFromIP"); fd != nil {
		l.p("/-- GetIPInfoFromIP at %s: top-level guards in source order (condition, constant assigned to the label; \"\" = none) -/", pos(fd))
		l.p("def ipInfoFromIPSteps : List (String × String) := %s", leanPairList(guardSteps(fd.Body, assigned)))
		// the database is consulted exactly once, after the class guards
		calls := callsOf(fd.Body, "ip2info.GetIPInfo")
		after := false
		if len(calls) == 1 {
			after = true
			for _, st := range fd.Body.List {
				if is, ok := st.(*ast.IfStmt); ok && is.Pos() < calls[0].Pos() {
					c := exprString(is.Cond)
					if !(c == "ip2info==nil" || c == "ip==nil" || c == "!ip.IsGlobalUnicast()") {
						after = false
					}
				}
			}
		}
		l.p("/-- the single database call comes after the nil and class guards -/")
		l.p("def ipInfoLookupAfterClassGuards : Bool := %v", after)
	} else {
		miss("ipinfo.GetIPInfoFromIP not found")
	}
	if fd := ipi.findFunc("", "GetIPInfoFromAddr"); fd != nil {
		l.p("/-- GetIPInfoFromAddr at %s: guards in source order -/", pos(fd))
		l.p("def ipInfoFromAddrSteps : List (String × String) := %s", leanPairList(guardSteps(fd.Body, assigned)))
	} else {
		miss("ipinfo.GetIPInfoFromAddr not found")
	}

	// ---- RequirePublicIP: guards in order with the status each returns
	if fd := onet.findFunc("", "RequirePublicIP"); fd != nil {
		ret := func(is *ast.IfStmt) (string, bool) {
			v := ""
			ast.Inspect(is.Body, func(n ast.Node) bool {
				if c, ok := n.(*ast.CallExpr); ok && strings.HasSuffix(exprString(c.Fun), "NewConnectionError") && len(c.Args) > 0 {
					v, _ = stringLit(c.Args[0])
				}
				return true
			})
			return v, true
		}
		l.p("/-- RequirePublicIP at %s: guards in source order (condition, status returned) -/", pos(fd))
		l.p("def requirePublicSteps : List (String × String) := %s", leanPairList(guardSteps(fd.Body, ret)))
		last := ""
		if n := len(fd.Body.List); n > 0 {
			if r, ok := fd.Body.List[n-1].(*ast.ReturnStmt); ok && len(r.Results) == 1 {
				last = exprString(r.Results[0])
			}
		}
		l.p("def requirePublicFallsThroughTo : String := %s", leanStr(last))
	} else {
		miss("net.RequirePublicIP not found")
	}

	// ---- drainErrToString: every return is a string literal
	if fd := svc.findFunc("", "drainErrToString"); fd != nil {
		var lits []string
		other := false
		ast.Inspect(fd.Body, func(n ast.Node) bool {
			if r, ok := n.(*ast.ReturnStmt); ok && len(r.Results) == 1 {
				if s, ok := stringLit(r.Results[0]); ok {
					lits = append(lits, s)
				} else {
					other = true
				}
			}
			return true
		})
		sort.Strings(lits)
		l.p("/-- drainErrToString at %s: the literals it returns, and whether some return is not a literal -/", pos(fd))
		l.p("def drainResults : List String := %s", leanStrList(lits))
		l.p("def drainReturnsNonLiteral : Bool := %v", other)
	} else {
		miss("service.drainErrToString not found")
	}

	// ---- status alphabets
	l.p("/-- status literals passed to NewConnectionError / ensureConnectionError in service/tcp.go -/")
	l.p("def tcpStatuses : List String := %s", leanStrList(statusLits(svc, "tcp.go")))
	l.p("/-- ... in service/udp.go -/")
	l.p("def udpStatuses : List String := %s", leanStrList(statusLits(svc, "udp.go")))
	l.p("/-- ... in net/private_net.go -/")
	l.p("def netStatuses : List String := %s", leanStrList(statusLits(onet, "private_net.go")))
	l.p("end OutlineModel.Gen.Decisions")
	l.write()
}
