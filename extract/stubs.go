package main
