package main

func genMetricTable() {}
