package main


func genLockFacts()   {}
func genMetricTable() {}
