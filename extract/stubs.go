package main

func genWiring()      {}
func genLockFacts()   {}
func genMetricTable() {}
