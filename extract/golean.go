package main

// golean: a small translator from a subset of Go to Lean 4 (tie "G", strongest form).
//
// For the functions listed in glTargets it regenerates, on every run, a Lean definition from the
// function's typed AST: a `do` block in the Option monad (none = the Go function panics) over the
// run-time prelude Model/GoRT.lean.  The Lean side then PROVES, for all inputs, that the generated
// definition and the hand-written model agree (Proofs/Tie*.lean), so that every theorem about the
// model is a theorem about what the source says now.  A semantic change to one of these functions
// breaks the tie proof at `lake build`; a construct outside the subset is reported as MISSING (fail
// closed).
//
// Subset: assignments (plain, op-assign, ++/--, field, slice element, map element), if/else with
// init statement, return, range over slices and maps, counting for loops, var declarations, struct
// literals, calls to other translated functions, a table of standard-library operations with a
// fixed meaning (time arithmetic, sync.Once, errors.New, binary.BigEndian.Uint32, net.IP
// predicates ...), lock operations (dropped: the locking discipline is the subject of the lock
// facts), logging (dropped), calls on embedded or field interfaces whose result is unused (recorded
// as effects), interface method calls whose result is used (parameters of the generated definition).

import (
	"fmt"
	"regexp"
	"go/ast"
	"go/constant"
	"go/token"
	"go/types"
	"sort"
	"strings"

	"golang.org/x/tools/go/packages"
)

type glTarget struct {
	pkg      string // package path relative to the repo ("service")
	recv     string // receiver type name or ""
	name     string
	strBytes bool            // translate `string` as List UInt8 (else String)
	opaque   map[string]bool // package-level functions kept as parameters
	drop     map[string]bool // package-level functions whose calls are dropped (logging helpers)
	listElem string          // value type of the container/list elements this function handles (repo struct name)
	nilPtrs  bool            // pointers returned by opaque functions may be nil (Option); without it they are assumed valid, as the callers in the code do
	lit      bool            // translate the function literal this function returns (its captured variables — the parameters of the function — come first)
	trace    bool            // also record, in program order, the calls of the opaque functions (they read or write the connections they are given)
}

var glTargets = []glTarget{
	{pkg: "service", recv: "", name: "preHash", strBytes: true},
	{pkg: "service", recv: "", name: "NewReplayCache"},
	{pkg: "service", recv: "ReplayCache", name: "Add", strBytes: true},
	{pkg: "service", recv: "ReplayCache", name: "Resize"},
	{pkg: "service", recv: "natconn", name: "onWrite", opaque: map[string]bool{"isDNS": true}},
	{pkg: "service", recv: "natconn", name: "onRead", opaque: map[string]bool{"isDNS": true}},
	{pkg: "service", recv: "natconn", name: "WriteTo", opaque: map[string]bool{"isDNS": true}},
	{pkg: "service", recv: "natconn", name: "ReadFrom", opaque: map[string]bool{"isDNS": true}},
	{pkg: "net", recv: "", name: "IsPrivateAddress"},
	{pkg: "net", recv: "", name: "RequirePublicIP"},
	{pkg: "ipinfo", recv: "", name: "GetIPInfoFromIP"},
	{pkg: "ipinfo", recv: "", name: "GetIPInfoFromAddr", opaque: map[string]bool{"SplitHostPort": true, "ParseIP": true, "IndexByte": true}},
	{pkg: "service", recv: "serverSaltGenerator", name: "splitSalt"},
	{pkg: "service", recv: "serverSaltGenerator", name: "IsServerSalt", opaque: map[string]bool{"getTag": true}},
	{pkg: "service", recv: "", name: "matchesIP", listElem: "CipherEntry"},
	{pkg: "service", recv: "cipherList", name: "SnapshotForClientIP", listElem: "CipherEntry"},
	{pkg: "service", recv: "cipherList", name: "MarkUsedByClientIP", listElem: "CipherEntry"},
	{pkg: "service", recv: "cipherList", name: "Update", listElem: "CipherEntry"},
	{pkg: "service", recv: "", name: "MakeCipherEntry", opaque: map[string]bool{"NewServerSaltGenerator": true}},
	{pkg: "service", recv: "", name: "findAccessKeyUDP", listElem: "CipherEntry", opaque: map[string]bool{"Unpack": true}, drop: map[string]bool{"debugUDP": true}},
	{pkg: "service", recv: "", name: "drainErrToString"},
	{pkg: "service", recv: "", name: "NewShadowsocksStreamAuthenticator", lit: true, nilPtrs: true, opaque: map[string]bool{"findAccessKey": true, "remoteIP": true, "NewReader": true, "NewWriter": true, "WrapConn": true}},
	{pkg: "service", recv: "ssService", name: "HandleStream", trace: true},
	{pkg: "service", recv: "natmap", name: "Get"},
	{pkg: "service", recv: "natmap", name: "set"},
	{pkg: "service", recv: "natmap", name: "del"},
	{pkg: "service", recv: "natmap", name: "Close"},
	{pkg: "service", recv: "packetHandler", name: "validatePacket", opaque: map[string]bool{"SplitAddr": true, "ResolveUDPAddr": true, "ensureConnectionError": true, "String": true}},
	{pkg: "service", recv: "streamHandler", name: "handleConnection", trace: true, opaque: map[string]bool{"getProxyRequest": true, "proxyConnection": true, "FuncStreamDialer": true, "Copy": true, "absorbProbe": true}},
	{pkg: "service", recv: "streamHandler", name: "Handle", trace: true, opaque: map[string]bool{"getProxyRequest": true, "proxyConnection": true, "FuncStreamDialer": true, "Copy": true, "absorbProbe": true, "MeasureConn": true, "Since": true}},
	{pkg: "service", recv: "", name: "findEntry", listElem: "CipherEntry", opaque: map[string]bool{"Unpack": true}, drop: map[string]bool{"debugTCP": true}},
	{pkg: "service", recv: "", name: "findAccessKey", listElem: "CipherEntry", opaque: map[string]bool{"Unpack": true, "MultiReader": true, "NewReader": true, "ReadFull": true, "Errorf": true, "Since": true}, drop: map[string]bool{"debugTCP": true}},
	{pkg: "service/metrics", recv: "measuredConn", name: "Read"},
	{pkg: "service/metrics", recv: "measuredConn", name: "Write"},
	{pkg: "service/metrics", recv: "measuredConn", name: "WriteTo"},
	{pkg: "service/metrics", recv: "measuredConn", name: "ReadFrom"},
	{pkg: "cmd/outline-ss-server", recv: "", name: "newCipherListFromConfig", listElem: "CipherEntry", opaque: map[string]bool{"NewEncryptionKey": true, "NewCipherList": true}},
	{pkg: "cmd/outline-ss-server", recv: "Config", name: "Validate", opaque: map[string]bool{"SplitHostPort": true, "ParseIP": true}},
	{pkg: "prometheus", recv: "tcpConnMetrics", name: "AddAuthenticated", opaque: map[string]bool{"toIPKey": true}},
	{pkg: "prometheus", recv: "tcpConnMetrics", name: "AddClosed", opaque: map[string]bool{"toIPKey": true}},
	{pkg: "prometheus", recv: "tcpConnMetrics", name: "AddProbe"},
	{pkg: "prometheus", recv: "udpConnMetrics", name: "AddPacketFromClient"},
	{pkg: "prometheus", recv: "udpConnMetrics", name: "AddPacketFromTarget"},
	{pkg: "prometheus", recv: "udpConnMetrics", name: "RemoveNatEntry", opaque: map[string]bool{"toIPKey": true}},
	{pkg: "prometheus", recv: "tunnelTimeMetrics", name: "reportTunnelTime", opaque: map[string]bool{"asnLabel": true}},
	{pkg: "prometheus", recv: "tunnelTimeMetrics", name: "startConnection"},
	{pkg: "prometheus", recv: "tunnelTimeMetrics", name: "stopConnection", opaque: map[string]bool{"asnLabel": true}},
	{pkg: "prometheus", recv: "tunnelTimeMetrics", name: "Collect", opaque: map[string]bool{"asnLabel": true}},
}

type glExtra struct{ name, typ string }

type glAlias struct{ home, key ast.Expr }

type glFn struct {
	t       glTarget
	p       *packages.Package
	fd      *ast.FuncDecl
	body    strings.Builder
	escaped    map[types.Object]bool // locals a pointer into which was handed to an opaque function
	inoutValue bool            // translating a call whose result is used and whose in-outs are written back (see cond)
	lastRes    string          // the result of that call
	sig     *types.Signature   // of the translated function (for a literal: of the literal)
	resAs   map[int]types.Type // interface results translated as the pointer they carry
	extras  []glExtra // additional parameters (now, opaque functions, interface methods)
	inouts  []string  // names of receiver / pointer parameters that are threaded through
	retTyp  string
	errs    []string
	tmp     int
	nilRet  string
	inLit   bool
	names   map[types.Object]string
	nres      int   // number of Go results
	recvInOut bool  // the receiver is threaded through
	ptrParams []int // indices of pointer parameters that are threaded through
	alias     map[types.Object]glAlias // pointer local -> where its object lives (a map element)
	ptrLocal  map[types.Object]string    // pointer locals with a nil flag: name of the flag
	elemAlias map[types.Object]*ast.Ident // pointer local obtained by e.Value.(*T): the element variable e
	idxSubst  map[[2]types.Object]string // inside `for i := 0; i < len(X); i++`: X[i] is the element variable of the canonical range form
	errAs     map[types.Object]string // interface view of an error value (from err.(I)): the error expression it stands for
	fnEff     bool // calls on opaque (interface) parameters are recorded in a function-level effect log, returned last
	funcLits  map[types.Object]*ast.FuncLit // locals bound to a function literal (only ever handed to sync.Once.Do)
	used    map[string]bool
	g       *golean
}

type golean struct {
	pkgs    map[string]*packages.Package
	fns     map[string]*glFn // key: pkg.recv.name
	order   []string
	structs map[string]*types.Named // lean name -> type
	sorder  []string
	effs    map[string]bool // lean struct names that need an eff field
	keyStructs map[string]bool // lean struct names used as map keys (need DecidableEq)
	curListElem string
	listElemOf map[string]string // lean struct name -> element type of its container/list fields
	strMode map[string]bool // lean struct name -> strBytes mode it was first used with
}

var leanKeywords = map[string]bool{"end": true, "from": true, "at": true, "in": true, "fun": true, "then": true, "do": true, "open": true,
	"local": true, "show": true, "have": true, "let": true, "if": true, "else": true, "match": true, "with": true, "where": true, "def": true,
	"theorem": true, "instance": true, "structure": true, "namespace": true, "section": true, "variable": true, "universe": true, "import": true,
	"return": true, "for": true, "mut": true, "by": true, "Type": true, "Prop": true, "Sort": true, "set_option": true, "deriving": true,
	"private": true, "protected": true, "partial": true, "unsafe": true, "macro": true, "syntax": true, "notation": true, "prefix": true,
	"infix": true, "postfix": true, "abbrev": true, "axiom": true, "example": true, "inductive": true, "class": true, "extends": true, "try": true,
	"catch": true, "finally": true, "unless": true, "break": true, "continue": true, "calc": true, "exact": true, "using": true, "opaque": true, "exists": true, "forall": true, "fun_": false, "info": false}

func lid(s string) string {
	if leanKeywords[s] {
		return s + "_"
	}
	if s == "_" {
		return "_"
	}
	return s
}

// nameOf gives every Go variable of the function its own Lean name (Go scopes may reuse a name; a
// Lean `do` block may not shadow a mutable variable).
func (f *glFn) nameOf(obj types.Object, name string) string {
	if name == "_" || obj == nil {
		return lid(name)
	}
	if f.names == nil {
		f.names = map[types.Object]string{}
		f.used = map[string]bool{}
	}
	if n, ok := f.names[obj]; ok {
		return n
	}
	n := lid(name)
	for i := 1; f.used[n]; i++ {
		n = fmt.Sprintf("%s_%d", lid(name), i)
	}
	f.used[n] = true
	f.names[obj] = n
	return n
}

func (f *glFn) idName(id *ast.Ident) string {
	if obj := f.p.TypesInfo.Defs[id]; obj != nil {
		return f.nameOf(obj, id.Name)
	}
	if obj := f.p.TypesInfo.Uses[id]; obj != nil {
		if _, ok := obj.(*types.Var); ok {
			return f.nameOf(obj, id.Name)
		}
	}
	return lid(id.Name)
}

func (f *glFn) fail(n ast.Node, format string, a ...any) string {
	m := fmt.Sprintf("golean %s.%s.%s at %s: ", f.t.pkg, f.t.recv, f.t.name, glPos(f.p.Fset, n)) + fmt.Sprintf(format, a...)
	f.errs = append(f.errs, m)
	return "sorryUnsupported"
}

func (f *glFn) addExtra(name, typ string) {
	for _, e := range f.extras {
		if e.name == name {
			return
		}
	}
	f.extras = append(f.extras, glExtra{name, typ})
	// alphabetical: the signature must not depend on which parameter the body happens to use first
	sort.Slice(f.extras, func(i, j int) bool { return f.extras[i].name < f.extras[j].name })
}

// ---- types ----

func (f *glFn) leanType(t types.Type) string { return f.g.leanType(t, f.t.strBytes, f) }

func isNamed(t types.Type, pkg, name string) bool {
	n, ok := t.(*types.Named)
	if !ok {
		if a, ok2 := t.(*types.Alias); ok2 {
			return isNamed(types.Unalias(a), pkg, name)
		}
		return false
	}
	o := n.Obj()
	return o.Name() == name && o.Pkg() != nil && o.Pkg().Path() == pkg
}

func (g *golean) leanType(t types.Type, strBytes bool, f *glFn) string {
	if a, ok := t.(*types.Alias); ok {
		if _, isSig := types.Unalias(a).Underlying().(*types.Signature); isSig && a.Obj().Pkg() != nil {
			return "(Opaque " + leanStr(a.Obj().Pkg().Name()+"."+a.Obj().Name()) + ")" // a function value the code only stores and calls
		}
	}
	switch {
	case isNamed(t, "time", "Time"), isNamed(t, "time", "Duration"):
		return "Int"
	case isNamed(derefT(t), "github.com/Jigsaw-Code/outline-ss-server/net", "ConnectionError"):
		return "(Option String)" // a *ConnectionError is seen through its status; nil = no error
	case isNamed(t, "sync", "Once"):
		return "Bool"
	case isNamed(t, "net", "IP"):
		return "(List UInt8)"
	case isNamed(t, "net", "IPNet"):
		return "(List UInt8 × List UInt8)"
	case isNamed(t, "container/list", "Element"), isNamed(t, "container/list", "List"):
		le := ""
		if f != nil {
			le = f.t.listElem
		} else {
			le = g.curListElem
		}
		if le == "" {
			if f != nil {
				return f.fail(f.fd, "container/list without a configured element type")
			}
			return "sorryUnsupported"
		}
		// make sure the element structure is declared
		if f != nil {
			if o := f.p.Types.Scope().Lookup(le); o != nil {
				g.leanType(o.Type(), strBytes, f)
			}
		}
		if isNamed(t, "container/list", "Element") {
			return "(ListElem " + le + ")"
		}
		return "(List (ListElem " + le + "))"
	}
	switch u := t.(type) {
	case *types.Alias:
		return g.leanType(types.Unalias(u), strBytes, f)
	case *types.Pointer:
		return g.leanType(u.Elem(), strBytes, f)
	case *types.Basic:
		switch u.Kind() {
		case types.Int, types.Int64, types.Int32, types.UntypedInt:
			return "Int"
		case types.Float64:
			return "Int" // only ever a number of nanoseconds handed to a metric (GoRT.seconds)
		case types.Uint8:
			return "UInt8"
		case types.Uint32:
			return "UInt32"
		case types.Bool, types.UntypedBool:
			return "Bool"
		case types.String, types.UntypedString:
			if strBytes {
				return "(List UInt8)"
			}
			return "String"
		}
	case *types.Slice:
		return "(List " + g.leanType(u.Elem(), strBytes, f) + ")"
	case *types.Array:
		return "(List " + g.leanType(u.Elem(), strBytes, f) + ")"
	case *types.Map:
		kt := g.leanType(u.Key(), strBytes, f)
		if _, isStruct := g.structs[kt]; isStruct {
			g.keyStructs[kt] = true
		}
		return "(GoMap " + kt + " " + g.leanType(u.Elem(), strBytes, f) + ")"
	case *types.Struct:
		if u.NumFields() == 0 {
			return "Unit"
		}
	case *types.Named:
		if u.Obj().Name() == "error" && u.Obj().Pkg() == nil {
			return "(Option String)"
		}
		switch uu := u.Underlying().(type) {
		case *types.Struct:
			if uu.NumFields() == 0 {
				return "Unit"
			}
			if !isRepoType(u) {
				// a value of a standard-library struct type the code only compares and passes on
				return "(Opaque " + leanStr(u.Obj().Pkg().Name()+"."+u.Obj().Name()) + ")"
			}
			name := u.Obj().Name()
			if _, ok := g.structs[name]; !ok {
				g.structs[name] = u
				g.strMode[name] = strBytes
				if f != nil {
					g.listElemOf[name] = f.t.listElem
				}
				// visit field types first so that they are declared before this structure
				for i := 0; i < uu.NumFields(); i++ {
					if g.fieldKept(uu.Field(i)) {
						g.leanType(uu.Field(i).Type(), strBytes, nil)
					}
				}
				g.sorder = append(g.sorder, name)
			}
			return name
		case *types.Signature:
			return "(Opaque " + leanStr(u.Obj().Pkg().Name()+"."+u.Obj().Name()) + ")" // a function value the code only hands on
		case *types.Interface:
			return "(Opaque " + leanStr(u.Obj().Pkg().Name()+"."+u.Obj().Name()) + ")"
		case *types.Basic, *types.Slice, *types.Map:
			return g.leanType(uu, strBytes, f)
		}
	}
	if f != nil {
		return f.fail(f.fd, "type %s is outside the translated subset", t.String())
	}
	return "sorryUnsupported"
}

// fieldKept: fields whose type has a meaning in the prelude; the rest (locks, interfaces the code only
// calls through, metric vectors, crypto keys) is not part of the translated state.
func (g *golean) fieldKept(v *types.Var) bool {
	t := v.Type()
	if isNamed(t, "sync", "Mutex") || isNamed(t, "sync", "RWMutex") {
		return false
	}
	if p, ok := t.(*types.Pointer); ok {
		t = p.Elem()
		if _, ok := t.Underlying().(*types.Struct); ok && isRepoType(t) {
			return false // a shared object of the repository: calls on it are recorded as effects, it is not part of this value
		}
		if _, ok := t.Underlying().(*types.Struct); ok && !isRepoType(t) {
			return isNamed(t, "github.com/Jigsaw-Code/outline-sdk/transport/shadowsocks", "EncryptionKey") || isNamed(t, "container/list", "List") || isNamed(t, "log/slog", "Logger")
		}
	}
	if v.Embedded() {
		_, isI := t.Underlying().(*types.Interface)
		return isI
	}
	if _, ok := t.Underlying().(*types.Chan); ok {
		return false
	}
	if _, ok := t.(*types.Signature); ok {
		return false // a function stored in the object: what it does is a parameter (`field_<name>`) of the functions that call it
	}
	return true
}

func isRepoType(t types.Type) bool {
	if n, ok := t.(*types.Named); ok && n.Obj().Pkg() != nil {
		return strings.HasPrefix(n.Obj().Pkg().Path(), "github.com/Jigsaw-Code/outline-ss-server")
	}
	return false
}

func (g *golean) zero(t types.Type, strBytes bool) string {
	lt := g.leanType(t, strBytes, nil)
	switch {
	case lt == "Int" || lt == "UInt8" || lt == "UInt32":
		return "0"
	case lt == "Bool":
		return "false"
	case lt == "String":
		return "\"\""
	case lt == "Unit":
		return "()"
	case strings.HasPrefix(lt, "(List "):
		return "[]"
	case strings.HasPrefix(lt, "(GoMap "):
		return "GoMap.empty"
	case strings.HasPrefix(lt, "(Option "):
		return "none"
	case strings.HasPrefix(lt, "(Opaque "):
		return "⟨0⟩"
	case strings.HasPrefix(lt, "(List UInt8 ×"):
		return "([], [])"
	case strings.HasPrefix(lt, "(ListElem "):
		return "(GoRT.ListElem.mk 0 " + strings.TrimSuffix(strings.TrimPrefix(lt, "(ListElem "), ")") + ".zero)"
	}
	if _, ok := g.structs[lt]; ok {
		return lt + ".zero"
	}
	return "sorryUnsupported"
}

// ---- expressions ----

func (f *glFn) typeOf(e ast.Expr) types.Type { return f.p.TypesInfo.TypeOf(e) }

func (f *glFn) constOf(e ast.Expr) (string, bool) {
	tv, ok := f.p.TypesInfo.Types[e]
	if !ok || tv.Value == nil {
		return "", false
	}
	switch tv.Value.Kind() {
	case constant.Int:
		lt := f.leanType(tv.Type)
		if lt == "Int" {
			return "(" + tv.Value.ExactString() + " : Int)", true
		}
		return "(" + tv.Value.ExactString() + " : " + lt + ")", true
	case constant.Bool:
		return fmt.Sprint(constant.BoolVal(tv.Value)), true
	case constant.String:
		s := constant.StringVal(tv.Value)
		if f.t.strBytes {
			var bs []string
			for _, b := range []byte(s) {
				bs = append(bs, fmt.Sprint(b))
			}
			return "([" + strings.Join(bs, ", ") + "] : List UInt8)", true
		}
		return leanStr(s), true
	}
	return "", false
}

func isPtrResult(t types.Type) bool {
	return isPtrToRepoStruct(t) || (func() bool { p, ok := t.(*types.Pointer); return ok && isNamed(p.Elem(), "container/list", "Element") })()
}

func derefT(t types.Type) types.Type {
	if p, ok := t.(*types.Pointer); ok {
		return p.Elem()
	}
	return t
}

func isIntLean(lt string) bool { return lt == "Int" }

func isFloat(t types.Type) bool {
	b, ok := t.Underlying().(*types.Basic)
	return ok && b.Info()&types.IsFloat != 0
}

func (f *glFn) expr(e ast.Expr) string {
	if c, ok := f.constOf(e); ok {
		return c
	}
	switch x := e.(type) {
	case *ast.ParenExpr:
		return "(" + f.expr(x.X) + ")"
	case *ast.Ident:
		if x.Name == "nil" {
			return f.fail(e, "nil without a type from its context")
		}
		if x.Name == "true" || x.Name == "false" {
			return x.Name
		}
		obj := f.p.TypesInfo.Uses[x]
		if v, ok := obj.(*types.Var); ok && v.Parent() == v.Pkg().Scope() {
			// package-level variable
			if v.Pkg().Name() == "net" && v.Name() == "privateNetworks" {
				return "OutlineModel.Gen.privateNets"
			}
			if lt := f.leanType(v.Type()); strings.HasPrefix(lt, "(Opaque ") {
				f.addExtra(lid(v.Name()), lt) // a package-level object the function only hands on
				return lid(v.Name())
			}
			return f.fail(e, "package variable %s has no meaning in the prelude", v.Name())
		}
		return f.idName(x)
	case *ast.SelectorExpr:
		if v, ok := f.p.TypesInfo.Uses[x.Sel].(*types.Var); ok && v.Pkg() != nil && v.Parent() == v.Pkg().Scope() {
			if lt := f.leanType(v.Type()); strings.HasPrefix(lt, "(Opaque ") {
				n := lid(v.Pkg().Name() + "_" + v.Name())
				f.addExtra(n, lt) // a package-level object of another package the function only hands on (io.Discard)
				return n
			}
		}
		if sel, ok := f.p.TypesInfo.Selections[x]; ok && sel.Kind() == types.FieldVal {
			if xt := f.leanType(f.typeOf(x.X)); strings.HasPrefix(xt, "(Opaque ") && !isConnErr(f.typeOf(x.X)) {
				// a field of an object of another module the code holds by pointer (tgtUDPAddr.IP): a projection that is a parameter
				pname := lid(strings.NewReplacer("(Opaque \"", "", "\")", "", ".", "_").Replace(xt) + "_" + x.Sel.Name)
				f.addExtra(pname, xt+" → "+f.leanType(sel.Obj().Type()))
				return "(" + pname + " " + f.expr(x.X) + ")"
			}
			if isConnErr(f.typeOf(x.X)) {
				if x.Sel.Name == "Status" {
					return "(← " + f.expr(x.X) + ")" // dereferencing a nil *ConnectionError panics
				}
				return f.fail(e, "field %s of a ConnectionError (only its status is modelled)", x.Sel.Name)
			}
			return f.expr(x.X) + "." + lid(x.Sel.Name)
		}
		return f.fail(e, "selector %s", exprString(e))
	case *ast.UnaryExpr:
		switch x.Op {
		case token.NOT:
			return "(!" + f.expr(x.X) + ")"
		case token.SUB:
			return "(-" + f.expr(x.X) + ")"
		case token.AND:
			return f.expr(x.X) // &T{...}: value semantics
		}
	case *ast.StarExpr:
		return f.expr(x.X)
	case *ast.BinaryExpr:
		return f.binary(x)
	case *ast.IndexExpr:
		bt := f.typeOf(x.X).Underlying()
		switch bt.(type) {
		case *types.Map:
			m := bt.(*types.Map)
			return "((GoMap.get? " + f.expr(x.X) + " " + f.expr(x.Index) + ").getD " + f.g.zero(m.Elem(), f.t.strBytes) + ")"
		case *types.Slice, *types.Array, *types.Basic:
			if xo, io := f.objOf(x.X), f.objOf(x.Index); xo != nil && io != nil {
				if v, ok := f.idxSubst[[2]types.Object{xo, io}]; ok {
					return v
				}
			}
			return "(← GoRT.idx " + f.expr(x.X) + " " + f.expr(x.Index) + ")"
		}
	case *ast.SliceExpr:
		if x.Low == nil && x.High == nil {
			return f.expr(x.X)
		}
		if b, ok := f.typeOf(x.X).Underlying().(*types.Basic); ok && b.Info()&types.IsString != 0 && !f.t.strBytes && x.Max == nil {
			lo, hi := "(0 : Int)", "(GoRT.strLen "+f.expr(x.X)+")"
			if x.Low != nil {
				lo = f.expr(x.Low)
			}
			if x.High != nil {
				hi = f.expr(x.High)
			}
			return "(← GoRT.strSlice " + f.expr(x.X) + " " + lo + " " + hi + ")"
		}
		if x.Max == nil {
			lo, hi := "(0 : Int)", "(GoRT.len "+f.expr(x.X)+")"
			if x.Low != nil {
				lo = f.expr(x.Low)
			}
			if x.High != nil {
				hi = f.expr(x.High)
			}
			return "(← GoRT.slice " + f.expr(x.X) + " " + lo + " " + hi + ")"
		}
	case *ast.TypeAssertExpr:
		// e.Value.(*T) on a container/list element whose value type is the configured one
		if se, ok := x.X.(*ast.SelectorExpr); ok && se.Sel.Name == "Value" && x.Type != nil {
			if isNamed(derefT(f.typeOf(se.X)), "container/list", "Element") {
				if f.leanType(f.p.TypesInfo.TypeOf(x.Type)) == f.t.listElem {
					return f.expr(se.X) + ".Value"
				}
			}
		}
	case *ast.CompositeLit:
		return f.composite(x)
	case *ast.CallExpr:
		return f.call(x, true)
	case *ast.FuncLit:
		return f.fail(e, "function literal as a value")
	}
	return f.fail(e, "expression %s", exprString(e))
}

func isNilIdent(e ast.Expr) bool {
	id, ok := e.(*ast.Ident)
	return ok && id.Name == "nil"
}

// exprAs translates e where the context wants type t (gives the untyped nil its meaning)
func (f *glFn) exprAs(e ast.Expr, t types.Type) string {
	if u, ok := e.(*ast.UnaryExpr); ok && u.Op == token.AND {
		if _, isI := t.Underlying().(*types.Interface); isI {
			if cl, ok := u.X.(*ast.CompositeLit); ok && len(cl.Elts) == 0 {
				// a fresh object of a repo type with no fields set, stored in an interface variable (&NoOpTCPConnMetrics{}): a parameter
				lt := f.leanType(t)
				n := "new_" + strings.NewReplacer("service.", "", "metrics.", "", ".", "_").Replace(types.TypeString(f.typeOf(cl), func(p *types.Package) string { return p.Name() }))
				f.addExtra(lid(n), lt)
				return lid(n)
			}
		}
	}
	if isNilIdent(e) {
		z := f.g.zero(t, f.t.strBytes)
		if z == "sorryUnsupported" {
			return f.fail(e, "nil of type %s", t)
		}
		return z
	}
	return f.expr(e)
}

func (f *glFn) binary(x *ast.BinaryExpr) string {
	if (x.Op == token.EQL || x.Op == token.NEQ) && (isNilIdent(x.Y) || isNilIdent(x.X)) {
		o := x.X
		if isNilIdent(x.X) {
			o = x.Y
		}
		if id, ok := o.(*ast.Ident); ok {
			if flag, ok := f.ptrLocal[f.objOf(id)]; ok {
				if x.Op == token.EQL {
					return flag
				}
				return "(!" + flag + ")"
			}
		}
	}
	var a, b string
	switch {
	case isNilIdent(x.Y):
		a, b = f.expr(x.X), f.exprAs(x.Y, f.typeOf(x.X))
	case isNilIdent(x.X):
		a, b = f.exprAs(x.X, f.typeOf(x.Y)), f.expr(x.Y)
	default:
		a, b = f.expr(x.X), f.expr(x.Y)
	}
	lt := f.leanType(f.typeOf(x.X))
	hasBind := func(s string) bool { return strings.Contains(s, "←") }
	switch x.Op {
	case token.LAND, token.LOR:
		if hasBind(b) {
			return f.fail(x, "short-circuit operand that can panic")
		}
		if x.Op == token.LAND {
			return "(" + a + " && " + b + ")"
		}
		return "(" + a + " || " + b + ")"
	case token.EQL:
		return "(decide (" + a + " = " + b + "))"
	case token.NEQ:
		return "(decide (" + a + " ≠ " + b + "))"
	case token.LSS:
		return "(decide (" + a + " < " + b + "))"
	case token.LEQ:
		return "(decide (" + a + " ≤ " + b + "))"
	case token.GTR:
		return "(decide (" + a + " > " + b + "))"
	case token.GEQ:
		return "(decide (" + a + " ≥ " + b + "))"
	case token.ADD:
		if lt == "String" {
			return "(" + a + " ++ " + b + ")"
		}
		return "(" + a + " + " + b + ")"
	case token.SUB:
		return "(" + a + " - " + b + ")"
	case token.MUL:
		return "(" + a + " * " + b + ")"
	case token.QUO:
		if isIntLean(lt) {
			return "(Int.tdiv " + a + " " + b + ")"
		}
	case token.REM:
		if isIntLean(lt) {
			return "(Int.tmod " + a + " " + b + ")"
		}
	case token.AND:
		if isIntLean(lt) {
			return "(GoRT.iand " + a + " " + b + ")"
		}
		return "(" + a + " &&& " + b + ")"
	case token.OR:
		if !isIntLean(lt) {
			return "(" + a + " ||| " + b + ")"
		}
	case token.XOR:
		if !isIntLean(lt) {
			return "(" + a + " ^^^ " + b + ")"
		}
	case token.SHL:
		if !isIntLean(lt) {
			return "(" + a + " <<< " + b + ")"
		}
	case token.SHR:
		if !isIntLean(lt) {
			return "(" + a + " >>> " + b + ")"
		}
	}
	return f.fail(x, "operator %s on %s", x.Op, lt)
}

func (f *glFn) composite(x *ast.CompositeLit) string {
	t := f.typeOf(x)
	lt := f.leanType(t)
	if isNamed(t, "time", "Time") && len(x.Elts) == 0 {
		return "(0 : Int)" // the zero time
	}
	if strings.HasPrefix(lt, "(Opaque ") && len(x.Elts) == 0 {
		return "(⟨0⟩ : " + lt + ")"
	}
	switch u := t.Underlying().(type) {
	case *types.Struct:
		if u.NumFields() == 0 {
			return "()"
		}
		var parts []string
		for _, el := range x.Elts {
			kv, ok := el.(*ast.KeyValueExpr)
			if !ok {
				// positional: the fields in declaration order
				if len(x.Elts) != u.NumFields() {
					return f.fail(x, "positional struct literal with missing fields")
				}
				parts = nil
				for i, e2 := range x.Elts {
					if f.g.fieldKept(u.Field(i)) {
						parts = append(parts, lid(u.Field(i).Name())+" := "+f.expr(e2))
					}
				}
				break
			}
			k := kv.Key.(*ast.Ident).Name
			var fv *types.Var
			for i := 0; i < u.NumFields(); i++ {
				if u.Field(i).Name() == k {
					fv = u.Field(i)
				}
			}
			if fv == nil || !f.g.fieldKept(fv) {
				continue // a field outside the translated state
			}
			parts = append(parts, lid(k)+" := "+f.expr(kv.Value))
		}
		if len(parts) == 0 {
			return lt + ".zero"
		}
		return "{ " + lt + ".zero with " + strings.Join(parts, ", ") + " }"
	case *types.Array:
		if len(x.Elts) == 0 {
			return "(List.replicate " + fmt.Sprint(u.Len()) + " " + f.g.zero(u.Elem(), f.t.strBytes) + ")"
		}
	case *types.Slice:
		var parts []string
		for _, el := range x.Elts {
			parts = append(parts, f.expr(el))
		}
		return "[" + strings.Join(parts, ", ") + "]"
	case *types.Map:
		if len(x.Elts) == 0 {
			return "GoMap.empty"
		}
	}
	return f.fail(x, "composite literal of %s", t.String())
}

// callee identification
func (f *glFn) calleeObj(c *ast.CallExpr) types.Object {
	switch fn := c.Fun.(type) {
	case *ast.Ident:
		return f.p.TypesInfo.Uses[fn]
	case *ast.SelectorExpr:
		if sel, ok := f.p.TypesInfo.Selections[fn]; ok {
			return sel.Obj()
		}
		return f.p.TypesInfo.Uses[fn.Sel]
	}
	return nil
}

func recvNamed(fn *types.Func) (pkg, name string) {
	sig := fn.Type().(*types.Signature)
	if sig.Recv() == nil {
		return "", ""
	}
	t := sig.Recv().Type()
	if p, ok := t.(*types.Pointer); ok {
		t = p.Elem()
	}
	if n, ok := t.(*types.Named); ok {
		if n.Obj().Pkg() != nil {
			return n.Obj().Pkg().Path(), n.Obj().Name()
		}
		return "", n.Obj().Name()
	}
	return "", ""
}

// call translates a call expression.  value=false: the call is a statement (result unused); the
// returned string is then a complete `do` statement or "" when the call is dropped.
func (f *glFn) call(c *ast.CallExpr, value bool) string {
	// conversions
	if tv, ok := f.p.TypesInfo.Types[c.Fun]; ok && tv.IsType() {
		if _, isLit := c.Args[0].(*ast.FuncLit); isLit {
			// T(func…): the closure is not translated; the value it makes is a parameter
			to := f.leanType(tv.Type)
			n := "closure_" + strings.NewReplacer("(Opaque \"", "", "\")", "", ".", "_").Replace(to)
			f.addExtra(n, to)
			return n
		}
		from := f.leanType(f.typeOf(c.Args[0]))
		to := f.leanType(tv.Type)
		a := f.expr(c.Args[0])
		if from == to {
			return a
		}
		switch from + ">" + to {
		case "UInt8>UInt32":
			return "(" + a + ").toUInt32"
		case "UInt8>Int":
			return "((" + a + ").toNat : Int)"
		case "UInt32>Int":
			return "((" + a + ").toNat : Int)"
		}
		return f.fail(c, "conversion %s -> %s", from, to)
	}
	// builtins
	if id, ok := c.Fun.(*ast.Ident); ok {
		if _, isB := f.p.TypesInfo.Uses[id].(*types.Builtin); isB {
			switch id.Name {
			case "len":
				at := f.typeOf(c.Args[0]).Underlying()
				if _, ok := at.(*types.Map); ok {
					return "(GoMap.size " + f.expr(c.Args[0]) + ")"
				}
				if b, ok := at.(*types.Basic); ok && b.Info()&types.IsString != 0 && !f.t.strBytes {
					return "(GoRT.len (" + f.expr(c.Args[0]) + ").toUTF8.toList)"
				}
				return "(GoRT.len " + f.expr(c.Args[0]) + ")"
			case "make":
				t := f.typeOf(c.Args[0])
				switch u := t.Underlying().(type) {
				case *types.Map:
					return "(GoMap.empty : " + f.leanType(t) + ")"
				case *types.Slice:
					if len(c.Args) == 2 {
						return "(List.replicate (" + f.expr(c.Args[1]) + ").toNat " + f.g.zero(u.Elem(), f.t.strBytes) + ")"
					}
				}
			case "panic":
				return "(← (none : Option " + "Unit" + "))"
			case "delete":
				if !value {
					return f.assign(c.Args[0], "(GoMap.erase "+f.expr(c.Args[0])+" "+f.expr(c.Args[1])+")")
				}
			}
			return f.fail(c, "builtin %s", id.Name)
		}
	}
	obj := f.calleeObj(c)
	fn, _ := obj.(*types.Func)
	if fn == nil {
		if fsel, ok := c.Fun.(*ast.SelectorExpr); ok {
			if sl, ok := f.p.TypesInfo.Selections[fsel]; ok && sl.Kind() == types.FieldVal {
				if sg, ok := sl.Obj().Type().Underlying().(*types.Signature); ok {
					// a function stored in a field (h.authenticate): what it does is a parameter of the translation
					var ats, as []string
					for i := 0; i < sg.Params().Len(); i++ {
						ats = append(ats, f.leanType(sg.Params().At(i).Type()))
						as = append(as, f.expr(c.Args[i]))
					}
					pname := lid("field_" + fsel.Sel.Name)
					f.addExtra(pname, strings.Join(ats, " → ")+" → "+f.resultType(sg))
					return "(" + pname + " " + strings.Join(as, " ") + ")"
				}
			}
		}
		// the stubbable clock of the metrics package: `var now = time.Now`
		if v, ok := obj.(*types.Var); ok && v.Name() == "now" && v.Parent() == v.Pkg().Scope() && len(c.Args) == 0 {
			if sg, ok := v.Type().(*types.Signature); ok && sg.Results().Len() == 1 && isNamed(sg.Results().At(0).Type(), "time", "Time") {
				f.addExtra("now", "Int")
				return "now"
			}
		}
		return f.fail(c, "call of a function value %s", exprString(c.Fun))
	}
	pkgPath := ""
	if fn.Pkg() != nil {
		pkgPath = fn.Pkg().Path()
	}
	rp, rn := recvNamed(fn)
	full := pkgPath + "." + fn.Name()
	if rn != "" {
		full = rp + "." + rn + "." + fn.Name()
	}
	sel, _ := c.Fun.(*ast.SelectorExpr)
	if rn == "" && f.t.drop[fn.Name()] {
		if value {
			return f.fail(c, "dropped helper %s used as a value", fn.Name())
		}
		return ""
	}
	// --- standard library table ---
	switch full {
	case "container/list.New":
		return "([] : " + f.leanType(f.typeOf(c)) + ")"
	case "container/list.List.PushBack":
		if value {
			return f.fail(c, "PushBack as a value")
		}
		return f.assign(sel.X, "(GoRT.pushBack "+f.expr(sel.X)+" "+f.expr(c.Args[0])+")")
	case "container/list.List.Len":
		return "(GoRT.len " + f.expr(sel.X) + ")"
	case "container/list.List.MoveToFront":
		if value {
			return f.fail(c, "MoveToFront as a value")
		}
		return f.assign(sel.X, "(GoRT.moveToFront "+f.expr(sel.X)+" "+f.expr(c.Args[0])+".id)")
	case "sync.Mutex.Lock", "sync.Mutex.Unlock", "sync.RWMutex.Lock", "sync.RWMutex.Unlock", "sync.RWMutex.RLock", "sync.RWMutex.RUnlock":
		return ""
	case "time.Now":
		f.addExtra("now", "Int")
		return "now"
	case "time.Time.IsZero":
		return "(decide (" + f.expr(sel.X) + " = 0))"
	case "time.Time.Add":
		return "(" + f.expr(sel.X) + " + " + f.expr(c.Args[0]) + ")"
	case "time.Time.Sub":
		return "(" + f.expr(sel.X) + " - " + f.expr(c.Args[0]) + ")"
	case "time.Time.After":
		return "(decide (" + f.expr(sel.X) + " > " + f.expr(c.Args[0]) + "))"
	case "time.Time.Before":
		return "(decide (" + f.expr(sel.X) + " < " + f.expr(c.Args[0]) + "))"
	case "fmt.Sprintf", "fmt.Sprint":
		return "GoRT.formatted"
	case "bytes.Equal":
		return "(decide (" + f.expr(c.Args[0]) + " = " + f.expr(c.Args[1]) + "))"
	case "time.Duration.Seconds":
		return "(GoRT.seconds " + f.expr(sel.X) + ")"
	case "errors.New":
		return "(some " + f.strLit(c.Args[0]) + ")"
	case "fmt.Errorf":
		return "(some " + f.strLit(c.Args[0]) + ")"
	case "encoding/binary.bigEndian.Uint32":
		return "(← GoRT.beUint32 " + f.expr(c.Args[0]) + ")"
	case "net.IP.IsGlobalUnicast":
		return "(OutlineModel.IP.isGlobalUnicast " + f.expr(sel.X) + ")"
	case "net.IPNet.Contains":
		return "(OutlineModel.IP.contains " + f.expr(sel.X) + " " + f.expr(c.Args[0]) + ")"
	case "sync.Once.Do":
		if value {
			return f.fail(c, "Once.Do as a value")
		}
		lit, ok := c.Args[0].(*ast.FuncLit)
		if !ok {
			if obj := f.objOf(c.Args[0]); obj != nil && f.funcLits[obj] != nil {
				lit, ok = f.funcLits[obj], true
			}
		}
		if !ok {
			return f.fail(c, "Once.Do of a non-literal")
		}
		once := f.expr(sel.X)
		var sb strings.Builder
		sb.WriteString("if (!" + once + ") then\n")
		sb.WriteString("  " + f.assign(sel.X, "true") + "\n")
		inner := &strings.Builder{}
		saved := f.body
		f.body = *inner
		f.inLit = true
		f.block(lit.Body.List, 1)
		f.inLit = false
		body := f.body.String()
		f.body = saved
		sb.WriteString(body)
		return strings.TrimRight(sb.String(), "\n")
	}
	if pkgPath == "log/slog" || (rn == "Logger" && rp == "log/slog") {
		return ""
	}
	if strings.HasSuffix(full, "outline-ss-server/net.NewConnectionError") {
		if tv, ok := f.p.TypesInfo.Types[c.Args[0]]; !ok || tv.Value == nil {
			return "(some " + f.expr(c.Args[0]) + ")" // the status is a variable
		}
		return "(some " + f.strLit(c.Args[0]) + ")"
	}
	sig := fn.Type().(*types.Signature)
	// String() of a named string type is the string
	if sel != nil && fn.Name() == "String" && len(c.Args) == 0 {
		if b, ok := f.typeOf(sel.X).Underlying().(*types.Basic); ok && b.Info()&types.IsString != 0 {
			return f.expr(sel.X)
		}
	}
	// prometheus vectors: <recv>.<vec>.WithLabelValues(labels...).Add(v) is recorded as an effect of <recv>;
	// Collect / Describe export what has been recorded and change nothing
	if rp == "github.com/prometheus/client_golang/prometheus" || strings.HasPrefix(rp, "github.com/prometheus/client_golang/prometheus") {
		if (fn.Name() == "Collect" || fn.Name() == "Describe") && !value {
			return ""
		}
		if (fn.Name() == "Add" || fn.Name() == "Inc" || fn.Name() == "Observe") && !value && sel != nil {
			if inner, ok := sel.X.(*ast.CallExpr); ok {
				if isel, ok := inner.Fun.(*ast.SelectorExpr); ok && isel.Sel.Name == "WithLabelValues" {
					if vsel, ok := isel.X.(*ast.SelectorExpr); ok {
						root := f.rootIdent(vsel.X)
						if root != "" {
							var labels []string
							for _, a := range inner.Args {
								if f.leanType(f.typeOf(a)) != "String" {
									return f.fail(c, "label value of type %s", f.typeOf(a))
								}
								labels = append(labels, f.expr(a))
							}
							var as []string
							for _, a := range c.Args {
								if f.leanType(f.typeOf(a)) != "Int" && !isFloat(f.typeOf(a)) {
									return f.fail(c, "metric value of type %s", f.typeOf(a))
								}
								as = append(as, f.expr(a))
							}
							f.g.effs[f.rootStruct(vsel.X)] = true
							return lid(root) + " := { " + lid(root) + " with eff := " + lid(root) + ".eff ++ [{ name := " + leanStr(vsel.Sel.Name+"."+fn.Name()) +
								", args := [" + strings.Join(as, ", ") + "], strs := [" + strings.Join(labels, ", ") + "] }] }"
						}
					}
				}
			}
		}
	}
	// io.Copy(dst, src): what it moves is the business of the two ends; a parameter
	if full == "io.Copy" && value {
		ats := []string{f.leanType(f.typeOf(c.Args[0])), f.leanType(f.typeOf(c.Args[1]))}
		pname := "io_Copy_" + strings.NewReplacer("(Opaque \"", "", "\")", "", ".", "_").Replace(ats[0]) + "_" + strings.NewReplacer("(Opaque \"", "", "\")", "", ".", "_").Replace(ats[1])
		f.addExtra(pname, strings.Join(ats, " → ")+" → "+f.resultType(sig))
		return "(" + pname + " " + f.expr(c.Args[0]) + " " + f.expr(c.Args[1]) + ")"
	}
	// a method of a standard-library value the code does not look into (netip.Addr.AsSlice ...): a parameter
	if sel != nil && rn != "" && !strings.HasPrefix(rp, "github.com/Jigsaw-Code/outline-ss-server") && value {
		if strings.HasPrefix(f.leanType(f.typeOf(sel.X)), "(Opaque ") {
			pname := lid(strings.ReplaceAll(rn, ".", "_") + "_" + fn.Name())
			ats := []string{f.leanType(f.typeOf(sel.X))}
			as := []string{f.expr(sel.X)}
			if id, ok := sel.X.(*ast.Ident); ok {
				if ev, ok := f.errAs[f.objOf(id)]; ok {
					ats[0], as[0] = "(Option String)", ev // a method of an error seen through an interface: a function of the error
				}
			}
			for i := 0; i < sig.Params().Len(); i++ {
				ats = append(ats, f.leanType(sig.Params().At(i).Type()))
				as = append(as, f.expr(c.Args[i]))
			}
			f.addExtra(pname, strings.Join(ats, " → ")+" → "+f.resultType(sig))
			return "(" + pname + " " + strings.Join(as, " ") + ")"
		}
	}
	// --- opaque package-level functions and interface methods: parameters ---
	if ((rn != "" && sel != nil && f.t.opaque[fn.Name()]) || full == "io.Copy") && !value {
		// an opaque callee used as a statement: an effect in the function's own log (pointer arguments are recorded as such,
		// not by the value they point to)
		var vals []string
		if rn != "" && sel != nil {
			if at, ok := f.atoms(f.expr(sel.X), f.typeOf(sel.X)); ok && !isPtrToRepoStruct(f.typeOf(sel.X)) {
				vals = append(vals, at)
			}
		}
		for _, a := range c.Args {
			if isPtrToRepoStruct(f.typeOf(a)) {
				vals = append(vals, "[]")
				continue
			}
			at, ok := f.atoms(f.expr(a), f.typeOf(a))
			if !ok {
				return f.fail(c, "effect argument of type %s", f.typeOf(a))
			}
			vals = append(vals, at)
		}
		f.fnEff = true
		return "eff__ := eff__ ++ [{ name := " + leanStr(map[bool]string{true: "io.Copy", false: fn.Name()}[full == "io.Copy"]) + ", args := [], vals := [" + strings.Join(vals, ", ") + "] }]"
	}
	if rn != "" && sel != nil && f.t.opaque[fn.Name()] && value {
		ats := []string{f.leanType(f.typeOf(sel.X))}
		as := []string{f.expr(sel.X)}
		for i := 0; i < sig.Params().Len(); i++ {
			ats = append(ats, f.leanType(sig.Params().At(i).Type()))
			as = append(as, f.expr(c.Args[i]))
		}
		pname := lid(fn.Name())
		if !isRepoPkg(rp) {
			pname = lid(rn + "_" + fn.Name()) // a method of a type of another module (socks.Addr.String)
		}
		f.addExtra(pname, strings.Join(ats, " → ")+" → "+f.resultType(sig))
		return "(" + pname + " " + strings.Join(as, " ") + ")"
	}
	if rn == "" && f.t.opaque[fn.Name()] {
		var ats []string
		var as []string
		for i := range c.Args { // all of them: a variadic function is a parameter of the arity it is called with
			if u, ok := c.Args[i].(*ast.UnaryExpr); ok && u.Op == token.AND {
				if se, ok := u.X.(*ast.SelectorExpr); ok {
					if obj := f.objOf(se.X); obj != nil {
						// &v.field handed to an opaque function: from here on v is written behind the translation's back.
						// The pointer is not passed on; v is marked, its value is recorded as unknown (`[]`) in effect logs,
						// and any other read of it is refused.
						if f.escaped == nil {
							f.escaped = map[types.Object]bool{}
						}
						f.escaped[obj] = true
						continue
					}
				}
			}
			ats = append(ats, f.leanType(f.typeOf(c.Args[i])))
			as = append(as, f.expr(c.Args[i]))
		}
		if len(ats) == 0 {
			f.addExtra(lid(fn.Name()), f.resultType(sig)) // a function without arguments: its (one) result
			return lid(fn.Name())
		}
		f.addExtra(lid(fn.Name()), strings.Join(ats, " → ")+" → "+f.resultType(sig))
		return "(" + lid(fn.Name()) + " " + strings.Join(as, " ") + ")"
	}
	if sel != nil {
		_, isIface := f.typeOf(sel.X).Underlying().(*types.Interface)
		if !isIface && !value && rn != "" && !isRepoPkg(rp) {
			if _, isId := sel.X.(*ast.Ident); isId && strings.HasPrefix(f.leanType(f.typeOf(sel.X)), "(Opaque ") {
				isIface = true // an object of another module held by pointer (a *shadowsocks.Writer): a call on it is an effect, as on an interface
			}
		}
		if isIface || f.isEmbeddedIfaceCall(sel) {
			if !value {
				// effect: record the call in the root variable's eff field
				root := f.rootIdent(sel.X)
				if root == "" {
					return f.fail(c, "effect on a non-variable")
				}
				if strings.HasPrefix(f.rootStruct(sel.X), "(Opaque ") {
					// the object itself is opaque (an interface parameter): the call goes to the function's own effect log
					var vals []string
					for _, a := range c.Args {
						at, ok := f.atoms(f.expr(a), f.typeOf(a))
						if !ok {
							return f.fail(c, "effect argument of type %s", f.typeOf(a))
						}
						vals = append(vals, at)
					}
					f.fnEff = true
					return "eff__ := eff__ ++ [{ name := " + leanStr(rn+"."+fn.Name()) + ", args := [], vals := [" + strings.Join(append([]string{"[Atom.tok (" + f.expr(sel.X) + ").val]"}, vals...), ", ") + "] }]"
				}
				var as []string
				allInt := true
				for _, a := range c.Args {
					if f.leanType(f.typeOf(a)) != "Int" {
						allInt = false
					}
				}
				if !allInt {
					// arguments that are not all integers (tokens, strings): recorded as atoms, one list per argument
					var vals []string
					for _, a := range c.Args {
						at, ok := f.atoms(f.expr(a), f.typeOf(a))
						if !ok {
							return f.fail(c, "effect argument of type %s", f.typeOf(a))
						}
						vals = append(vals, at)
					}
					f.g.effs[f.rootStruct(sel.X)] = true
					path := exprString(sel.X)
					if i := strings.IndexByte(path, '.'); i >= 0 {
						path = path[i+1:]
					}
					return lid(root) + " := { " + lid(root) + " with eff := " + lid(root) + ".eff ++ [{ name := " + leanStr(path+"."+fn.Name()) + ", args := [], vals := [" + strings.Join(vals, ", ") + "] }] }"
				}
				for _, a := range c.Args {
					as = append(as, f.expr(a))
				}
				f.g.effs[f.rootStruct(sel.X)] = true
				return lid(root) + " := { " + lid(root) + " with eff := " + lid(root) + ".eff ++ [{ name := " + leanStr(fn.Name()) + ", args := [" + strings.Join(as, ", ") + "] }] }"

			}
			// used result: a parameter function taking the interface token
			pname := lid(rn + "_" + fn.Name())
			ats := []string{f.leanType(f.typeOf(sel.X))}
			as := []string{f.expr(sel.X)}
			if id, ok := sel.X.(*ast.Ident); ok {
				if ev, ok := f.errAs[f.objOf(id)]; ok {
					ats[0], as[0] = "(Option String)", ev // a method of an error seen through an interface: a function of the error
				}
			}
			for i := 0; i < sig.Params().Len(); i++ {
				pt, at := f.leanType(sig.Params().At(i).Type()), f.leanType(f.typeOf(c.Args[i]))
				ats = append(ats, pt)
				if pt != at && strings.HasPrefix(pt, "(Opaque ") && strings.HasPrefix(at, "(Opaque ") {
					as = append(as, "(⟨("+f.expr(c.Args[i])+").val⟩ : "+pt+")") // the same object seen through another interface
				} else {
					as = append(as, f.expr(c.Args[i]))
				}
			}
			f.addExtra(pname, strings.Join(ats, " → ")+" → "+f.resultType(sig))
			return "(" + pname + " " + strings.Join(as, " ") + ")"
		}
	}
	// --- a method of a shared object of the repository reached through a field of the receiver: an effect ---
	if sel != nil && !value && rn != "" {
		if fs, ok := sel.X.(*ast.SelectorExpr); ok && isPtrToRepoStruct(f.typeOf(sel.X)) {
			if fsel, ok := f.p.TypesInfo.Selections[fs]; ok && fsel.Kind() == types.FieldVal {
				root := f.rootIdent(sel.X)
				if root != "" {
					// name: the field path below the root
					path := exprString(sel.X)
					if i := strings.IndexByte(path, '.'); i >= 0 {
						path = path[i+1:]
					}
					var vals []string
					for _, a := range c.Args {
						at, ok := f.atoms(f.expr(a), f.typeOf(a))
						if !ok {
							return f.fail(c, "effect argument of type %s", f.typeOf(a))
						}
						vals = append(vals, at)
					}
					f.g.effs[f.rootStruct(sel.X)] = true
					return lid(root) + " := { " + lid(root) + " with eff := " + lid(root) + ".eff ++ [{ name := " + leanStr(path+"."+fn.Name()) +
						", args := [], vals := [" + strings.Join(vals, ", ") + "] }] }"
				}
			}
		}
	}
	// --- another translated function ---
	key := strings.TrimPrefix(pkgPath, "github.com/Jigsaw-Code/outline-ss-server/") + "." + rn + "." + fn.Name()
	if callee, ok := f.g.fns[key]; ok {
		var as []string
		for _, e := range callee.extras {
			f.addExtra(e.name, e.typ)
			as = append(as, e.name)
		}
		if rn != "" {
			as = append(as, f.expr(sel.X))
		}
		for _, a := range c.Args {
			if _, isChan := f.typeOf(a).Underlying().(*types.Chan); isChan {
				continue
			}
			if b, ok := f.typeOf(a).Underlying().(*types.Basic); ok && b.Info()&types.IsString != 0 && callee.t.strBytes && !f.t.strBytes {
				as = append(as, "(String.toUTF8 "+f.expr(a)+").toList") // the callee sees strings as their bytes
				continue
			}
			as = append(as, f.expr(a))
		}
		name := callee.leanName()
		if len(callee.inouts) > 0 || callee.fnEff {
			if (value || callee.nres > 0) && !(f.inoutValue && callee.nres == 1) {
				return f.fail(c, "call of a translated function with in-out parameters (or an effect log) in value position")
			}
			// the in-outs come back as a tuple: receiver first, then the pointer parameters in order
			var lhs []ast.Expr
			if rn != "" && callee.recvInOut {
				lhs = append(lhs, sel.X)
			}
			for _, i := range callee.ptrParams {
				a := c.Args[i]
				if u, ok := a.(*ast.UnaryExpr); ok && u.Op == token.AND {
					a = u.X // &v: the callee's changes come back into v
				}
				lhs = append(lhs, a)
			}
			f.tmp++
			t := fmt.Sprintf("t__%d", f.tmp)
			out := "let " + t + " ← " + name + " " + strings.Join(as, " ")
			total := len(lhs)
			if f.inoutValue {
				total += callee.nres
			}
			if callee.fnEff {
				total++ // the callee's own effect log comes last
			}
			comp := func(j int) string { // component j of a right-nested tuple of `total` components
				p := t + strings.Repeat(".2", j)
				if j < total-1 {
					p += ".1"
				}
				return p
			}
			if f.inoutValue {
				f.lastRes = comp(len(lhs)) // the one result comes after the in-outs
			}
			if total == 1 && callee.fnEff && len(lhs) == 0 {
				f.fnEff = true
				return out + "\neff__ := eff__ ++ " + t
			}
			defer func() {}()
			for i, l := range lhs {
				proj := t
				for j := 0; j < i; j++ {
					proj += ".2"
				}
				if i < total-1 {
					proj += ".1"
				}
				out += "\n" + f.assign(l, proj)
				if wb := f.writeBack(l); wb != "" {
					out += "\n" + wb
				}
			}
			if callee.fnEff {
				f.fnEff = true
				out += "\neff__ := eff__ ++ " + comp(total-1) // the calls the callee made, in their place in the caller's log
			}
			return out
		}
		return "(← " + name + " " + strings.Join(as, " ") + ")"
	}
	return f.fail(c, "call of %s has no meaning in the prelude", full)
}

// hasInOutCall: the expression calls a translated function that changes its receiver or a pointer argument
func (f *glFn) hasInOutCall(e ast.Expr) bool {
	found := false
	ast.Inspect(e, func(n ast.Node) bool {
		if c, ok := n.(*ast.CallExpr); ok {
			if fn, ok := f.calleeObj(c).(*types.Func); ok && fn.Pkg() != nil {
				_, rn := recvNamed(fn)
				key := strings.TrimPrefix(fn.Pkg().Path(), "github.com/Jigsaw-Code/outline-ss-server/") + "." + rn + "." + fn.Name()
				if callee, ok := f.g.fns[key]; ok && (len(callee.inouts) > 0 || callee.fnEff) {
					found = true
				}
			}
		}
		return true
	})
	return found
}

// cond: a condition.  One that calls a state-changing translated function (`a || !c.Add(..)`) is evaluated step by
// step, in Go's order and with Go's short-circuit rule, by statements emitted before the `if`; the value is then a variable.
func (f *glFn) cond(e ast.Expr, ind int) string {
	if !f.hasInOutCall(e) {
		return f.expr(e)
	}
	switch x := e.(type) {
	case *ast.ParenExpr:
		return f.cond(x.X, ind)
	case *ast.UnaryExpr:
		if x.Op == token.NOT {
			return "(!" + f.cond(x.X, ind) + ")"
		}
	case *ast.BinaryExpr:
		if x.Op == token.LOR || x.Op == token.LAND {
			a := f.cond(x.X, ind)
			f.tmp++
			c := fmt.Sprintf("c__%d", f.tmp)
			f.emit(ind, "let mut "+c+" := "+a)
			if x.Op == token.LOR {
				f.emit(ind, "if (!"+c+") then")
			} else {
				f.emit(ind, "if "+c+" then")
			}
			f.derefGuards(&ast.ExprStmt{X: x.Y}, ind+1)
			v := f.cond(x.Y, ind+1)
			f.emit(ind+1, c+" := "+v)
			return c
		}
	case *ast.CallExpr:
		f.inoutValue = true
		out := f.call(x, true)
		f.inoutValue = false
		f.emit(ind, out)
		return f.lastRes
	}
	return f.fail(e, "condition with a state-changing call")
}

// isTranslatedCall: a call of another translated function
func (f *glFn) isTranslatedCall(e ast.Expr) bool {
	c, ok := e.(*ast.CallExpr)
	if !ok {
		return false
	}
	fn, ok := f.calleeObj(c).(*types.Func)
	if !ok || fn.Pkg() == nil {
		return false
	}
	_, rn := recvNamed(fn)
	_, ok = f.g.fns[strings.TrimPrefix(fn.Pkg().Path(), "github.com/Jigsaw-Code/outline-ss-server/")+"."+rn+"."+fn.Name()]
	return ok
}

// isOpaqueCall: a call of a function that is a parameter of the translation
func (f *glFn) isOpaqueCall(e ast.Expr) bool {
	c, ok := e.(*ast.CallExpr)
	if !ok {
		return false
	}
	fn, ok := f.calleeObj(c).(*types.Func)
	return ok && f.t.opaque[fn.Name()]
}

func (f *glFn) strLit(e ast.Expr) string {
	if tv, ok := f.p.TypesInfo.Types[e]; ok && tv.Value != nil && tv.Value.Kind() == constant.String {
		return leanStr(constant.StringVal(tv.Value))
	}
	return f.fail(e, "non-constant string where a literal is needed")
}

func (f *glFn) resultType(sig *types.Signature) string {
	var rs []string
	for i := 0; i < sig.Results().Len(); i++ {
		if rt := sig.Results().At(i).Type(); isPtrToRepoStruct(rt) && f.t.nilPtrs {
			rs = append(rs, "(Option "+f.leanType(rt)+")") // a pointer an opaque function returns may be nil
			continue
		}
		rs = append(rs, f.leanType(sig.Results().At(i).Type()))
	}
	if len(rs) == 0 {
		return "Unit"
	}
	return strings.Join(rs, " × ")
}

func (f *glFn) isEmbeddedIfaceCall(sel *ast.SelectorExpr) bool {
	s, ok := f.p.TypesInfo.Selections[sel]
	if !ok || len(s.Index()) < 2 {
		return false
	}
	// promoted method through an embedded field: is the embedded field an interface?
	t := s.Recv()
	if p, ok := t.(*types.Pointer); ok {
		t = p.Elem()
	}
	st, ok := t.Underlying().(*types.Struct)
	if !ok {
		return false
	}
	_, isI := st.Field(s.Index()[0]).Type().Underlying().(*types.Interface)
	return isI
}

func (f *glFn) rootIdent(e ast.Expr) string {
	for {
		switch x := e.(type) {
		case *ast.Ident:
			return x.Name
		case *ast.SelectorExpr:
			e = x.X
		case *ast.ParenExpr:
			e = x.X
		case *ast.StarExpr:
			e = x.X
		default:
			return ""
		}
	}
}

func (f *glFn) rootStruct(e ast.Expr) string {
	for {
		switch x := e.(type) {
		case *ast.Ident:
			return f.leanType(f.typeOf(x))
		case *ast.SelectorExpr:
			e = x.X
		case *ast.ParenExpr:
			e = x.X
		case *ast.StarExpr:
			e = x.X
		default:
			return ""
		}
	}
}

// atoms renders a value as a list of GoRT.Atom (structures are flattened field by field)
func (f *glFn) atoms(e string, t types.Type) (string, bool) {
	for obj := range f.escaped {
		if e == f.nameOf(obj, obj.Name()) {
			return "[]", true // written behind the translation's back: its value is not part of the log
		}
	}
	lt := f.leanType(t)
	switch {
	case lt == "Int":
		return "[Atom.int " + e + "]", true
	case lt == "String":
		return "[Atom.str " + e + "]", true
	case lt == "Bool":
		return "[Atom.bool " + e + "]", true
	case strings.HasPrefix(lt, "(Opaque "):
		return "[Atom.tok (" + e + ").val]", true
	case strings.HasPrefix(lt, "(ListElem "):
		return "[Atom.tok (" + e + ").id]", true
	case strings.HasPrefix(lt, "(List (ListElem "):
		// a container/list handed to an opaque object: the identities and the values of its elements, in order
		if le := f.t.listElem; le != "" {
			if o := f.p.Types.Scope().Lookup(le); o != nil || true {
				return "((" + e + ").flatMap (fun x__ => [Atom.tok x__.id] ++ " + le + ".atoms x__.Value))", true
			}
		}
	}
	if st, ok := derefT(t).Underlying().(*types.Struct); ok && isRepoType(derefT(t)) {
		var parts []string
		for i := 0; i < st.NumFields(); i++ {
			if !f.g.fieldKept(st.Field(i)) {
				continue
			}
			a, ok := f.atoms("("+e+")."+lid(st.Field(i).Name()), st.Field(i).Type())
			if !ok {
				return "", false
			}
			parts = append(parts, a)
		}
		return "(" + strings.Join(parts, " ++ ") + ")", true
	}
	return "", false
}

// ---- pointer locals: value semantics with write-back, and a nil flag ----

func isConnErr(t types.Type) bool {
	return isNamed(derefT(t), "github.com/Jigsaw-Code/outline-ss-server/net", "ConnectionError")
}

func isPtrToRepoStruct(t types.Type) bool {
	p, ok := t.(*types.Pointer)
	if !ok || isConnErr(t) {
		return false
	}
	_, isS := p.Elem().Underlying().(*types.Struct)
	return isS && isRepoType(p.Elem())
}

func (f *glFn) objOf(e ast.Expr) types.Object {
	id, ok := e.(*ast.Ident)
	if !ok {
		return nil
	}
	if o := f.p.TypesInfo.Defs[id]; o != nil {
		return o
	}
	return f.p.TypesInfo.Uses[id]
}

func (f *glFn) rootObj(e ast.Expr) (types.Object, bool) {
	bare := true
	for {
		switch x := e.(type) {
		case *ast.Ident:
			return f.objOf(x), bare
		case *ast.SelectorExpr:
			e, bare = x.X, false
		case *ast.ParenExpr:
			e = x.X
		case *ast.StarExpr:
			e = x.X
		case *ast.IndexExpr:
			e, bare = x.X, false
		default:
			return nil, false
		}
	}
}

// writeBack: after a mutation through the pointer local at the root of lhs, store the object back where it lives
func (f *glFn) writeBack(lhs ast.Expr) string {
	obj, _ := f.rootObj(lhs)
	if obj == nil {
		return ""
	}
	a, ok := f.alias[obj]
	if !ok {
		return ""
	}
	return f.assign(a.home, "(GoMap.insert "+f.expr(a.home)+" "+f.expr(a.key)+" "+f.nameOf(obj, obj.Name())+")")
}

func (f *glFn) setAlias(obj types.Object, home, key ast.Expr) {
	if f.alias == nil {
		f.alias = map[types.Object]glAlias{}
	}
	f.alias[obj] = glAlias{home, key}
}

func (f *glFn) nilFlag(obj types.Object) string {
	if f.ptrLocal == nil {
		f.ptrLocal = map[types.Object]string{}
	}
	if n, ok := f.ptrLocal[obj]; ok {
		return n
	}
	n := f.nameOf(obj, obj.Name()) + "_isNil"
	f.ptrLocal[obj] = n
	return n
}

// derefGuards: a statement that goes through a pointer local panics in Go when the pointer is nil
func (f *glFn) derefGuards(s ast.Stmt, ind int) {
	seen := map[string]bool{}
	var visit func(n ast.Node) bool
	visit = func(n ast.Node) bool {
		switch x := n.(type) {
		case *ast.BlockStmt, *ast.FuncLit:
			return false // nested statements get their own guards
		case *ast.IfStmt:
			if x.Init != nil {
				ast.Inspect(x.Init, visit)
			}
			ast.Inspect(x.Cond, visit)
			return false
		case *ast.RangeStmt:
			ast.Inspect(x.X, visit)
			return false
		case *ast.ForStmt:
			return false
		case *ast.SelectorExpr:
			if id, ok := x.X.(*ast.Ident); ok {
				if obj := f.objOf(id); obj != nil {
					if flag, ok := f.ptrLocal[obj]; ok && !seen[flag] {
						seen[flag] = true
						f.emit(ind, "if "+flag+" then (← (none : Option Unit))")
					}
				}
			}
		case *ast.CallExpr:
			for _, a := range x.Args {
				if id, ok := a.(*ast.Ident); ok {
					if obj := f.objOf(id); obj != nil {
						if flag, ok := f.ptrLocal[obj]; ok && !seen[flag] && isPtrToRepoStruct(obj.Type()) {
							seen[flag] = true
							f.emit(ind, "if "+flag+" then (← (none : Option Unit))")
						}
					}
				}
			}
		}
		return true
	}
	ast.Inspect(s, visit)
}

// ---- statements ----

// assign produces the `do` statement that stores rhs (a Lean expression) into the Go lvalue lhs.
func (f *glFn) assign(lhs ast.Expr, rhs string) string {
	switch x := lhs.(type) {
	case *ast.Ident:
		if x.Name == "_" {
			return "let _ := " + rhs
		}
		return f.idName(x) + " := " + rhs
	case *ast.ParenExpr:
		return f.assign(x.X, rhs)
	case *ast.StarExpr:
		return f.assign(x.X, rhs)
	case *ast.SelectorExpr:
		if sel, ok := f.p.TypesInfo.Selections[x]; ok && sel.Kind() == types.FieldVal {
			if ta, ok := x.X.(*ast.TypeAssertExpr); ok {
				// e.Value.(*T).field = v: a store into the object the element points to
				if se, ok := ta.X.(*ast.SelectorExpr); ok && se.Sel.Name == "Value" {
					if eid, ok := se.X.(*ast.Ident); ok && isNamed(derefT(f.typeOf(eid)), "container/list", "Element") && f.recvInOut {
						en := f.idName(eid)
						out := en + " := { " + en + " with Value := { " + en + ".Value with " + lid(x.Sel.Name) + " := " + rhs + " } }"
						recv := f.fd.Recv.List[0].Names[0]
						if st, ok := derefT(f.p.TypesInfo.Defs[recv].Type()).Underlying().(*types.Struct); ok {
							for i := 0; i < st.NumFields(); i++ {
								if isNamed(derefT(st.Field(i).Type()), "container/list", "List") {
									rn, fn := f.idName(recv), lid(st.Field(i).Name())
									out += "\n" + rn + " := { " + rn + " with " + fn + " := (GoRT.setValue " + rn + "." + fn + " " + en + ".id " + en + ".Value) }"
								}
							}
						}
						return out
					}
				}
			}
			base := f.expr(x.X)
			return f.assign(x.X, "{ "+base+" with "+lid(x.Sel.Name)+" := "+rhs+" }")
		}
	case *ast.IndexExpr:
		switch f.typeOf(x.X).Underlying().(type) {
		case *types.Map:
			return f.assign(x.X, "(GoMap.insert "+f.expr(x.X)+" "+f.expr(x.Index)+" "+rhs+")")
		case *types.Slice, *types.Array:
			return f.assign(x.X, "(← GoRT.set "+f.expr(x.X)+" "+f.expr(x.Index)+" "+rhs+")")
		}
	}
	return f.fail(lhs, "assignment to %s", exprString(lhs))
}

func (f *glFn) emit(ind int, s string) {
	if s == "" {
		return
	}
	pad := strings.Repeat("  ", ind)
	for _, l := range strings.Split(s, "\n") {
		f.body.WriteString(pad + l + "\n")
	}
}

var opAssign = map[token.Token]token.Token{token.ADD_ASSIGN: token.ADD, token.SUB_ASSIGN: token.SUB, token.MUL_ASSIGN: token.MUL,
	token.XOR_ASSIGN: token.XOR, token.AND_ASSIGN: token.AND, token.OR_ASSIGN: token.OR, token.SHL_ASSIGN: token.SHL, token.SHR_ASSIGN: token.SHR}

func (f *glFn) block(list []ast.Stmt, ind int) {
	n := f.body.Len()
	for _, s := range list {
		f.stmt(s, ind)
	}
	if f.body.Len() == n {
		f.emit(ind, "pure ()")
	}
}

func (f *glFn) define(id *ast.Ident, rhs string) string {
	if id.Name == "_" {
		return "let _ := " + rhs
	}
	if f.p.TypesInfo.Defs[id] != nil {
		return "let mut " + f.idName(id) + " := " + rhs
	}
	return f.idName(id) + " := " + rhs
}

// traceCalls: with `trace`, the calls a statement makes to functions that are parameters of the translation (a function
// stored in a field, an opaque package-level function) are also entered in the function's effect log, before the
// statement: their order relative to the calls on the interfaces is then part of the translated behaviour.
func (f *glFn) traceCalls(s ast.Stmt, ind int) {
	if !f.t.trace {
		return
	}
	var visit func(n ast.Node) bool
	visit = func(n ast.Node) bool {
		switch x := n.(type) {
		case *ast.BlockStmt, *ast.FuncLit:
			return false
		case *ast.IfStmt:
			if x.Init != nil {
				ast.Inspect(x.Init, visit)
			}
			ast.Inspect(x.Cond, visit)
			return false
		case *ast.RangeStmt:
			ast.Inspect(x.X, visit)
			return false
		case *ast.ForStmt:
			return false
		case *ast.CallExpr:
			name := ""
			if fn, ok := f.calleeObj(x).(*types.Func); ok {
				if _, rn := recvNamed(fn); rn == "" && f.t.opaque[fn.Name()] && fn.Pkg() != nil && isRepoPkg(fn.Pkg().Path()) {
					name = fn.Name()
				}
			} else if fsel, ok := x.Fun.(*ast.SelectorExpr); ok {
				if sl, ok := f.p.TypesInfo.Selections[fsel]; ok && sl.Kind() == types.FieldVal {
					if _, ok := sl.Obj().Type().Underlying().(*types.Signature); ok {
						name = fsel.Sel.Name
					}
				}
			}
			if name != "" {
				var vals []string
				for _, a := range x.Args {
					if u, isAmp := a.(*ast.UnaryExpr); isAmp && u.Op == token.AND {
						vals = append(vals, "[]") // a pointer: not a value of the log
						continue
					}
					if at, ok := f.atoms(f.expr(a), f.typeOf(a)); ok && !isPtrToRepoStruct(f.typeOf(a)) {
						vals = append(vals, at)
					} else {
						vals = append(vals, "[]")
					}
				}
				f.fnEff = true
				f.emit(ind, "eff__ := eff__ ++ [{ name := "+leanStr("call "+name)+", args := [], vals := ["+strings.Join(vals, ", ")+"] }]")
			}
		}
		return true
	}
	ast.Inspect(s, visit)
}

func isRepoPkg(path string) bool {
	return strings.HasPrefix(path, "github.com/Jigsaw-Code/outline-ss-server")
}

func (f *glFn) stmt(s ast.Stmt, ind int) {
	f.derefGuards(s, ind)
	f.traceCalls(s, ind)
	switch x := s.(type) {
	case *ast.BlockStmt:
		f.block(x.List, ind)
	case *ast.DeclStmt:
		gd, ok := x.Decl.(*ast.GenDecl)
		if ok && (gd.Tok == token.CONST || gd.Tok == token.TYPE) {
			return // constants are folded where they are used; a local type is declared like any other structure
		}
		if !ok || gd.Tok != token.VAR {
			f.fail(s, "declaration")
			return
		}
		for _, sp := range gd.Specs {
			vs := sp.(*ast.ValueSpec)
			for i, id := range vs.Names {
				if i < len(vs.Values) {
					f.emit(ind, "let mut "+f.idName(id)+" : "+f.leanType(f.typeOf(id))+" := "+f.expr(vs.Values[i]))
				} else {
					f.emit(ind, "let mut "+f.idName(id)+" : "+f.leanType(f.p.TypesInfo.Defs[id].Type())+" := "+f.g.zero(f.p.TypesInfo.Defs[id].Type(), f.t.strBytes))
				}
			}
		}
	case *ast.AssignStmt:
		if op, ok := opAssign[x.Tok]; ok {
			be := &ast.BinaryExpr{X: x.Lhs[0], Op: op, Y: x.Rhs[0]}
			// type information for the synthetic node: operate by hand
			a, b := f.expr(x.Lhs[0]), f.expr(x.Rhs[0])
			lt := f.leanType(f.typeOf(x.Lhs[0]))
			var r string
			switch op {
			case token.ADD:
				r = "(" + a + " + " + b + ")"
			case token.SUB:
				r = "(" + a + " - " + b + ")"
			case token.MUL:
				r = "(" + a + " * " + b + ")"
			case token.XOR:
				r = "(" + a + " ^^^ " + b + ")"
			case token.AND:
				if isIntLean(lt) {
					r = "(GoRT.iand " + a + " " + b + ")"
				} else {
					r = "(" + a + " &&& " + b + ")"
				}
			case token.OR:
				r = "(" + a + " ||| " + b + ")"
			default:
				r = f.fail(be, "op-assign %s", x.Tok)
			}
			if isIntLean(lt) && (op == token.XOR || op == token.OR) {
				r = f.fail(s, "bit operation on int")
			}
			f.emit(ind, f.assign(x.Lhs[0], r))
			f.afterStore(x.Lhs[0], nil, ind)
			return
		}
		if len(x.Rhs) == 1 && len(x.Lhs) == 2 {
			// comma-ok type assertion on an interface value: whether the dynamic type implements the
			// target interface is a parameter (a predicate on the token); the converted value is the same token
			if ta, ok := x.Rhs[0].(*ast.TypeAssertExpr); ok && ta.Type != nil {
				src := f.leanType(f.typeOf(ta.X))
				dst := f.leanType(f.p.TypesInfo.TypeOf(ta.Type))
				if src == "(Option String)" && strings.HasPrefix(dst, "(Opaque ") {
					// err.(net.Error): whether the error implements the interface is a parameter; so is what its methods answer
					pname := "implements_" + strings.NewReplacer("(Opaque \"", "", "\")", "", ".", "_").Replace(dst)
					f.addExtra(pname, "(Option String) → Bool")
					xv := f.expr(ta.X)
					if f.errAs == nil {
						f.errAs = map[types.Object]string{}
					}
					f.errAs[f.objOf(x.Lhs[0])] = xv
					f.emit(ind, f.defOrAssign(x, 0, "(⟨0⟩ : "+dst+")"))
					f.emit(ind, f.defOrAssign(x, 1, "("+pname+" "+xv+")"))
					return
				}
				if strings.HasPrefix(src, "(Opaque ") && strings.HasPrefix(dst, "(Opaque ") {
					pname := "implements_" + strings.NewReplacer("(Opaque \"", "", "\")", "", ".", "_").Replace(dst)
					f.addExtra(pname, src+" → Bool")
					xv := f.expr(ta.X)
					f.emit(ind, f.defOrAssign(x, 0, "(⟨("+xv+").val⟩ : "+dst+")"))
					f.emit(ind, f.defOrAssign(x, 1, "("+pname+" "+xv+")"))
					return
				}
				f.fail(s, "type assertion %s", exprString(ta))
				return
			}
			// comma-ok map lookup
			if ie, ok := x.Rhs[0].(*ast.IndexExpr); ok {
				if m, ok := f.typeOf(ie.X).Underlying().(*types.Map); ok {
					mv, k := f.expr(ie.X), f.expr(ie.Index)
					v := "((GoMap.get? " + mv + " " + k + ").getD " + f.g.zero(m.Elem(), f.t.strBytes) + ")"
					okv := "(GoMap.contains " + mv + " " + k + ")"
					if id, ok := x.Lhs[0].(*ast.Ident); !ok || id.Name != "_" {
						f.emit(ind, f.defOrAssign(x, 0, v))
					}
					if id, ok := x.Lhs[1].(*ast.Ident); !ok || id.Name != "_" {
						f.emit(ind, f.defOrAssign(x, 1, okv))
					}
					if isPtrToRepoStruct(m.Elem()) {
						if obj := f.objOf(x.Lhs[0]); obj != nil {
							f.setAlias(obj, ie.X, ie.Index)
							_, had := f.ptrLocal[obj]
							flag := f.nilFlag(obj)
							if had {
								f.emit(ind, flag+" := (!"+okv+")")
							} else {
								f.emit(ind, "let mut "+flag+" := (!"+okv+")")
							}
						}
					}
					return
				}
			}
		}
		if len(x.Rhs) == 1 && len(x.Lhs) == 2 {
			if c, ok := x.Rhs[0].(*ast.CallExpr); ok {
				if fn, ok := f.calleeObj(c).(*types.Func); ok && fn.Pkg() != nil && fn.Pkg().Path() == "io" && fn.Name() == "ReadFull" && f.t.opaque["ReadFull"] {
					// n, err := io.ReadFull(r, buf): the callee FILLS buf — the one aliasing the translation makes explicit:
					// the parameter returns the new contents of the buffer (of the same length, an assumption of the ties)
					f.tmp++
					t := fmt.Sprintf("t__%d", f.tmp)
					f.addExtra("io_ReadFull", f.leanType(f.typeOf(c.Args[0]))+" → Int → (List UInt8) × Int × (Option String)")
					f.emit(ind, "let "+t+" := (io_ReadFull "+f.expr(c.Args[0])+" (GoRT.len "+f.expr(c.Args[1])+"))")
					f.emit(ind, f.assign(c.Args[1], t+".1"))
					f.emit(ind, f.defOrAssign(x, 0, t+".2.1"))
					f.emit(ind, f.defOrAssign(x, 1, t+".2.2"))
					return
				}
			}
		}
		if len(x.Rhs) == 1 && len(x.Lhs) > 1 {
			// tuple-valued call
			f.tmp++
			t := fmt.Sprintf("t__%d", f.tmp)
			f.emit(ind, "let "+t+" := "+f.expr(x.Rhs[0]))
			for i := range x.Lhs {
				proj := t
				for j := 0; j < i; j++ {
					proj += ".2"
				}
				if i < len(x.Lhs)-1 {
					proj += ".1"
				}
				if obj := f.objOf(x.Lhs[i]); obj != nil && isPtrResult(obj.Type()) && f.isTranslatedCall(x.Rhs[0]) {
					// a pointer a translated function returns: Option
					z := f.g.zero(obj.Type(), f.t.strBytes)
					if p, ok := obj.Type().(*types.Pointer); ok && isNamed(p.Elem(), "container/list", "Element") {
						z = "⟨0, " + f.t.listElem + ".zero⟩"
					}
					f.emit(ind, f.defOrAssign(x, i, "("+proj+").getD "+z))
					_, had := f.ptrLocal[obj]
					flag := f.nilFlag(obj)
					if had {
						f.emit(ind, flag+" := ("+proj+").isNone")
					} else {
						f.emit(ind, "let mut "+flag+" := ("+proj+").isNone")
					}
					continue
				}
				if obj := f.objOf(x.Lhs[i]); obj != nil && isPtrToRepoStruct(obj.Type()) && f.t.nilPtrs && f.isOpaqueCall(x.Rhs[0]) {
					// a pointer from an opaque function: the value it points to and whether it is nil
					f.emit(ind, f.defOrAssign(x, i, "("+proj+").getD "+f.g.zero(obj.Type(), f.t.strBytes)))
					_, had := f.ptrLocal[obj]
					flag := f.nilFlag(obj)
					if had {
						f.emit(ind, flag+" := ("+proj+").isNone")
					} else {
						f.emit(ind, "let mut "+flag+" := ("+proj+").isNone")
					}
					continue
				}
				f.emit(ind, f.defOrAssign(x, i, proj))
			}
			return
		}
		if len(x.Lhs) != len(x.Rhs) {
			f.fail(s, "assignment shape")
			return
		}
		if len(x.Lhs) == 1 && x.Tok == token.DEFINE {
			if lit, ok := x.Rhs[0].(*ast.FuncLit); ok {
				if obj := f.objOf(x.Lhs[0]); obj != nil {
					if f.funcLits == nil {
						f.funcLits = map[types.Object]*ast.FuncLit{}
					}
					f.funcLits[obj] = lit // translated where it is run
					return
				}
			}
			// a pointer to a basic value aliases a variable or a field: not in the subset
			if p, ok := f.typeOf(x.Lhs[0]).(*types.Pointer); ok {
				if _, isB := p.Elem().Underlying().(*types.Basic); isB {
					f.fail(s, "local pointer to a basic value")
					return
				}
			}
		}
		if len(x.Lhs) > 1 {
			// a, b := e1, e2: the right-hand sides are evaluated before any assignment
			var tmps []string
			for i := range x.Rhs {
				f.tmp++
				t := fmt.Sprintf("t__%d", f.tmp)
				f.emit(ind, "let "+t+" := "+f.exprAs(x.Rhs[i], f.typeOf(x.Lhs[i])))
				tmps = append(tmps, t)
			}
			for i := range x.Lhs {
				f.emit(ind, f.defOrAssign(x, i, tmps[i]))
			}
			return
		}
		if c, ok := x.Rhs[0].(*ast.CallExpr); ok && len(x.Lhs) == 1 && f.isTranslatedCall(c) && f.hasInOutCall(c) {
			// x := g(...) where the translated g changes its receiver / pointer arguments or has an effect log of its own
			f.inoutValue = true
			out := f.call(c, true)
			f.inoutValue = false
			f.emit(ind, out)
			f.emit(ind, f.defOrAssign(x, 0, f.lastRes))
			return
		}
		f.emit(ind, f.defOrAssign(x, 0, f.exprAs(x.Rhs[0], f.typeOf(x.Lhs[0]))))
		if ie, ok := x.Rhs[0].(*ast.IndexExpr); ok {
			if m, ok := f.typeOf(ie.X).Underlying().(*types.Map); ok && isPtrToRepoStruct(m.Elem()) {
				// x := m[k] for a pointer-valued map: x points to the entry (nil when there is none)
				if obj := f.objOf(x.Lhs[0]); obj != nil {
					f.setAlias(obj, ie.X, ie.Index)
					_, had := f.ptrLocal[obj]
					flag := f.nilFlag(obj)
					okv := "(GoMap.contains " + f.expr(ie.X) + " " + f.expr(ie.Index) + ")"
					if had {
						f.emit(ind, flag+" := (!"+okv+")")
					} else {
						f.emit(ind, "let mut "+flag+" := (!"+okv+")")
					}
				}
				return
			}
		}
		if ta, ok := x.Rhs[0].(*ast.TypeAssertExpr); ok {
			// c := e.Value.(*T): c points to the object the element e points to
			if se, ok := ta.X.(*ast.SelectorExpr); ok && se.Sel.Name == "Value" {
				if eid, ok := se.X.(*ast.Ident); ok {
					if obj := f.objOf(x.Lhs[0]); obj != nil {
						if f.elemAlias == nil {
							f.elemAlias = map[types.Object]*ast.Ident{}
						}
						f.elemAlias[obj] = eid
					}
				}
			}
			return
		}
		f.afterStore(x.Lhs[0], x.Rhs[0], ind)
	case *ast.IncDecStmt:
		op := " + 1"
		if x.Tok == token.DEC {
			op = " - 1"
		}
		f.emit(ind, f.assign(x.X, "("+f.expr(x.X)+op+")"))
		f.afterStore(x.X, nil, ind)
	case *ast.ExprStmt:
		c, ok := x.X.(*ast.CallExpr)
		if !ok {
			f.fail(s, "expression statement")
			return
		}
		f.emit(ind, f.call(c, false))
	case *ast.DeferStmt:
		if r := f.call(x.Call, false); r != "" {
			f.fail(s, "defer of anything but an unlock")
		}
	case *ast.IfStmt:
		if x.Init != nil {
			f.stmt(x.Init, ind)
		}
		f.emit(ind, "if "+f.cond(x.Cond, ind)+" then")
		before := f.copyAlias()
		f.block(x.Body.List, ind+1)
		afterThen := f.copyAlias()
		f.alias = before
		if x.Else != nil {
			f.emit(ind, "else")
			switch el := x.Else.(type) {
			case *ast.BlockStmt:
				f.block(el.List, ind+1)
			default:
				f.stmt(el, ind+1)
			}
		}
		if !f.sameAlias(afterThen, !endsInReturn(x.Body)) {
			f.fail(x, "a pointer local lives in different places after the two branches")
		}
	case *ast.SwitchStmt:
		if x.Tag != nil || x.Init != nil {
			f.fail(s, "switch with a tag or an init statement")
			return
		}
		first := true
		var deflt *ast.CaseClause
		for _, cc := range x.Body.List {
			cl := cc.(*ast.CaseClause)
			if cl.List == nil {
				deflt = cl
				continue
			}
			var conds []string
			for _, e := range cl.List {
				conds = append(conds, f.expr(e))
			}
			kw := "else if "
			if first {
				kw, first = "if ", false
			}
			f.emit(ind, kw+strings.Join(conds, " || ")+" then")
			f.block(cl.Body, ind+1)
		}
		if deflt != nil {
			if first {
				f.block(deflt.Body, ind)
			} else {
				f.emit(ind, "else")
				f.block(deflt.Body, ind+1)
			}
		}
	case *ast.BranchStmt:
		if x.Tok == token.CONTINUE && x.Label == nil {
			f.emit(ind, "continue")
		} else {
			f.fail(s, "branch statement %s", x.Tok)
		}
	case *ast.ReturnStmt:
		var parts []string
		for _, io := range f.inouts {
			parts = append(parts, lid(io))
		}
		rsig := f.sigOf().Results()
		if len(x.Results) == 0 && rsig.Len() > 0 {
			f.fail(x, "bare return with named results")
		}
		for i, r := range x.Results {
			rt := rsig.At(i).Type()
			if t, ok := f.resAs[i]; ok {
				rt = t
			}
			switch {
			case f.inLit:
				parts = append(parts, f.expr(r))
			case isPtrResult(rt) && isNilIdent(r):
				parts = append(parts, "none")
			case isPtrResult(rt):
				if ix, ok := r.(*ast.IndexExpr); ok {
					if mt, ok := f.typeOf(ix.X).Underlying().(*types.Map); ok && isPtrToRepoStruct(mt.Elem()) {
						// m[k] of a map of pointers: nil when the key is absent
						parts = append(parts, "(GoMap.get? "+f.expr(ix.X)+" "+f.expr(ix.Index)+")")
						continue
					}
				}
				if id, ok := r.(*ast.Ident); ok {
					if flag, ok := f.ptrLocal[f.objOf(id)]; ok {
						parts = append(parts, "(if "+flag+" then none else some "+f.expr(r)+")") // a pointer variable that may hold nil
						continue
					}
				}
				parts = append(parts, "(some "+f.expr(r)+")")
			default:
				parts = append(parts, f.exprAs(r, rsig.At(i).Type()))
			}
		}
		if f.inLit {
			f.fail(x, "return inside a function literal")
		}
		f.emit(ind, "return "+retMark(parts))
	case *ast.RangeStmt:
		coll := f.expr(x.X)
		switch u := f.typeOf(x.X).Underlying().(type) {
		case *types.Slice, *types.Array:
			k, v := "_", "_"
			if x.Key != nil {
				k = f.idName(x.Key.(*ast.Ident))
			}
			if x.Value != nil {
				v = f.idName(x.Value.(*ast.Ident))
			}
			if k == "_" {
				f.emit(ind, "for "+v+" in "+coll+" do")
			} else {
				f.emit(ind, "for ("+k+", "+v+") in GoRT.enum "+coll+" do")
			}
			f.block(x.Body.List, ind+1)
		case *types.Map:
			// iteration order: the order of the association list (Go's is unspecified; the tie theorems must
			// not depend on it).  Keys are taken when the loop starts, each value when its turn comes.
			hasDelete := false
			ast.Inspect(x.Body, func(n ast.Node) bool {
				if c, ok := n.(*ast.CallExpr); ok {
					if id, ok := c.Fun.(*ast.Ident); ok && id.Name == "delete" {
						hasDelete = true
					}
				}
				return true
			})
			if hasDelete || x.Key == nil {
				f.fail(s, "range over a map that deletes, or without a key variable")
				return
			}
			kid := x.Key.(*ast.Ident)
			kname := f.idName(kid)
			if kid.Name == "_" {
				f.tmp++
				kname = fmt.Sprintf("k__%d", f.tmp)
			}
			f.emit(ind, "for "+kname+" in (GoMap.keys "+coll+") do")
			if x.Value != nil {
				vid := x.Value.(*ast.Ident)
				f.emit(ind+1, "let mut "+f.idName(vid)+" := ((GoMap.get? "+coll+" "+kname+").getD "+f.g.zero(u.Elem(), f.t.strBytes)+")")
				if isPtrToRepoStruct(u.Elem()) {
					if obj := f.objOf(vid); obj != nil {
						f.setAlias(obj, x.X, kid)
					}
				}
			}
			f.block(x.Body.List, ind+1)
		default:
			f.fail(s, "range over %s", f.typeOf(x.X))
		}
	case *ast.ForStmt:
		// for e := l.Front(); e != nil; e = e.Next() { ... } where the body does not assign e: the elements front to back
		if ev, lst, ok := f.listLoop(x); ok {
			f.emit(ind, "for "+f.idName(ev)+" in "+f.expr(lst)+" do")
			f.block(x.Body.List, ind+1)
			return
		}
		// for i := lo; i < hi; i++ { ... } where the body does not assign i
		init, ok1 := x.Init.(*ast.AssignStmt)
		cond, ok2 := x.Cond.(*ast.BinaryExpr)
		post, ok3 := x.Post.(*ast.IncDecStmt)
		if !ok1 || !ok2 || !ok3 || init.Tok != token.DEFINE || len(init.Lhs) != 1 || cond.Op != token.LSS || post.Tok != token.INC {
			f.fail(s, "loop shape")
			return
		}
		iv := init.Lhs[0].(*ast.Ident)
		if id, ok := cond.X.(*ast.Ident); !ok || id.Name != iv.Name {
			f.fail(s, "loop condition")
			return
		}
		if id, ok := post.X.(*ast.Ident); !ok || id.Name != iv.Name {
			f.fail(s, "loop increment")
			return
		}
		obj := f.p.TypesInfo.Defs[iv]
		assigned := false
		ast.Inspect(x.Body, func(n ast.Node) bool {
			switch a := n.(type) {
			case *ast.AssignStmt:
				for _, l := range a.Lhs {
					if id, ok := l.(*ast.Ident); ok && f.p.TypesInfo.Uses[id] == obj {
						assigned = true
					}
				}
			case *ast.IncDecStmt:
				if id, ok := a.X.(*ast.Ident); ok && f.p.TypesInfo.Uses[id] == obj {
					assigned = true
				}
			}
			return true
		})
		if assigned {
			f.fail(s, "loop variable assigned in the body")
			return
		}
		// canonical form: `for i := 0; i < len(X); i++ { ... X[i] ... }` over a slice/array/byte string X that the body
		// does not change is the range loop `for i, v := range X` with v for X[i] (an index in range never panics)
		if lc, ok := cond.Y.(*ast.CallExpr); ok && len(lc.Args) == 1 {
			if lf, ok := lc.Fun.(*ast.Ident); ok && lf.Name == "len" {
				if xi, ok := lc.Args[0].(*ast.Ident); ok {
					if bl, ok := init.Rhs[0].(*ast.BasicLit); ok && bl.Value == "0" {
						xo := f.objOf(xi)
						_, isMap := f.typeOf(xi).Underlying().(*types.Map)
						isStr := false
						if b, ok := f.typeOf(xi).Underlying().(*types.Basic); ok && b.Info()&types.IsString != 0 {
							isStr = true
						}
						changed := false
						ast.Inspect(x.Body, func(n ast.Node) bool {
							if a, ok := n.(*ast.AssignStmt); ok {
								for _, l := range a.Lhs {
									if ro, _ := f.rootObj(l); ro == xo {
										changed = true
									}
								}
							}
							return true
						})
						if xo != nil && !isMap && !changed && (!isStr || f.t.strBytes) {
							ev := f.idName(iv) + "_elem"
							if f.idxSubst == nil {
								f.idxSubst = map[[2]types.Object]string{}
							}
							f.idxSubst[[2]types.Object{xo, obj}] = ev
							f.emit(ind, "for ("+f.idName(iv)+", "+ev+") in GoRT.enum "+f.expr(xi)+" do")
							f.block(x.Body.List, ind+1)
							delete(f.idxSubst, [2]types.Object{xo, obj})
							return
						}
					}
				}
			}
		}
		f.emit(ind, "for "+f.idName(iv)+" in GoRT.rangeInt "+f.expr(init.Rhs[0])+" "+f.expr(cond.Y)+" do")
		f.block(x.Body.List, ind+1)
	default:
		f.fail(s, "statement %T", s)
	}
}

// afterStore keeps the pointer bookkeeping: a store THROUGH a pointer local is written back to where its
// object lives; a store OF a fresh object into the pointer local forgets where the old one lived; a store of
// the pointer local into a map element makes that element its home.
func (f *glFn) afterStore(lhs, rhs ast.Expr, ind int) {
	obj, bare := f.rootObj(lhs)
	if obj != nil && !bare {
		if eid, ok := f.elemAlias[obj]; ok {
			// a store through e.Value.(*T): the element variable and every container/list of the receiver see it
			en, cn := f.idName(eid), f.nameOf(obj, obj.Name())
			f.emit(ind, en+" := { "+en+" with Value := "+cn+" }")
			if f.recvInOut {
				recv := f.fd.Recv.List[0].Names[0]
				rt := derefT(f.p.TypesInfo.Defs[recv].Type())
				if st, ok := rt.Underlying().(*types.Struct); ok {
					for i := 0; i < st.NumFields(); i++ {
						if isNamed(derefT(st.Field(i).Type()), "container/list", "List") {
							rn, fn := f.idName(recv), lid(st.Field(i).Name())
							f.emit(ind, rn+" := { "+rn+" with "+fn+" := (GoRT.setValue "+rn+"."+fn+" "+en+".id "+cn+") }")
						}
					}
				}
			}
			return
		}
	}
	if obj != nil && !bare {
		if _, isPtr := f.ptrLocalOrAlias(obj); isPtr {
			f.emit(ind, f.writeBack(lhs))
		}
	}
	if obj != nil && bare && isPtrToRepoStruct(obj.Type()) && rhs != nil {
		delete(f.alias, obj)
		// &T{...} is never nil
		if u, ok := rhs.(*ast.UnaryExpr); ok && u.Op == token.AND {
			if flag, ok := f.ptrLocal[obj]; ok {
				f.emit(ind, flag+" := false")
			}
		} else if !isNilIdent(rhs) {
			f.fail(lhs, "pointer local assigned from %s", exprString(rhs))
		}
	}
	if ie, ok := lhs.(*ast.IndexExpr); ok && rhs != nil {
		if m, ok := f.typeOf(ie.X).Underlying().(*types.Map); ok && isPtrToRepoStruct(m.Elem()) {
			if robj := f.objOf(rhs); robj != nil {
				f.setAlias(robj, ie.X, ie.Index)
			}
		}
	}
}

func (f *glFn) ptrLocalOrAlias(obj types.Object) (string, bool) {
	if _, ok := f.alias[obj]; ok {
		return "", true
	}
	return "", false
}

func (f *glFn) listLoop(x *ast.ForStmt) (*ast.Ident, ast.Expr, bool) {
	init, ok := x.Init.(*ast.AssignStmt)
	if !ok || init.Tok != token.DEFINE || len(init.Lhs) != 1 || len(init.Rhs) != 1 {
		return nil, nil, false
	}
	ev, ok := init.Lhs[0].(*ast.Ident)
	if !ok {
		return nil, nil, false
	}
	fc, ok := init.Rhs[0].(*ast.CallExpr)
	if !ok {
		return nil, nil, false
	}
	fs, ok := fc.Fun.(*ast.SelectorExpr)
	if !ok || fs.Sel.Name != "Front" || !isNamed(derefT(f.typeOf(fs.X)), "container/list", "List") {
		return nil, nil, false
	}
	cond, ok := x.Cond.(*ast.BinaryExpr)
	if !ok || cond.Op != token.NEQ || !isNilIdent(cond.Y) {
		return nil, nil, false
	}
	if id, ok := cond.X.(*ast.Ident); !ok || id.Name != ev.Name {
		return nil, nil, false
	}
	post, ok := x.Post.(*ast.AssignStmt)
	if !ok || post.Tok != token.ASSIGN || len(post.Lhs) != 1 || len(post.Rhs) != 1 {
		return nil, nil, false
	}
	if id, ok := post.Lhs[0].(*ast.Ident); !ok || id.Name != ev.Name {
		return nil, nil, false
	}
	nc, ok := post.Rhs[0].(*ast.CallExpr)
	if !ok {
		return nil, nil, false
	}
	ns, ok := nc.Fun.(*ast.SelectorExpr)
	if !ok || ns.Sel.Name != "Next" {
		return nil, nil, false
	}
	if id, ok := ns.X.(*ast.Ident); !ok || id.Name != ev.Name {
		return nil, nil, false
	}
	// the body must not assign the loop variable nor change the list
	obj := f.p.TypesInfo.Defs[ev]
	bad := false
	ast.Inspect(x.Body, func(n ast.Node) bool {
		if a, ok := n.(*ast.AssignStmt); ok {
			for _, l := range a.Lhs {
				if id, ok := l.(*ast.Ident); ok && f.p.TypesInfo.Uses[id] == obj {
					bad = true
				}
			}
		}
		if c, ok := n.(*ast.CallExpr); ok {
			if s, ok := c.Fun.(*ast.SelectorExpr); ok && exprString(s.X) == exprString(fs.X) && s.Sel.Name != "Len" {
				bad = true
			}
		}
		return true
	})
	if bad {
		return nil, nil, false
	}
	return ev, fs.X, true
}

func (f *glFn) defOrAssign(x *ast.AssignStmt, i int, rhs string) string {
	if x.Tok == token.DEFINE {
		if id, ok := x.Lhs[i].(*ast.Ident); ok {
			return f.define(id, rhs)
		}
	}
	return f.assign(x.Lhs[i], rhs)
}

func endsInReturn(b *ast.BlockStmt) bool {
	if len(b.List) == 0 {
		return false
	}
	_, ok := b.List[len(b.List)-1].(*ast.ReturnStmt)
	return ok
}

func (f *glFn) copyAlias() map[types.Object]glAlias {
	c := map[types.Object]glAlias{}
	for k, v := range f.alias {
		c[k] = v
	}
	return c
}

// sameAlias compares the current alias state with the one after the other branch (ignored when that
// branch does not fall through)
func (f *glFn) sameAlias(other map[types.Object]glAlias, otherFallsThrough bool) bool {
	if !otherFallsThrough {
		return true
	}
	if len(other) != len(f.alias) {
		return false
	}
	for k, v := range other {
		w, ok := f.alias[k]
		if !ok || exprString(v.home) != exprString(w.home) || exprString(v.key) != exprString(w.key) {
			return false
		}
	}
	return true
}

// retMark keeps the components of a return apart until it is known whether the function has an effect log of its own
func retMark(parts []string) string { return "⟪" + strings.Join(parts, "⟫⟪") + "⟫" }

var retRe = regexp.MustCompile(`⟪.*⟫`)

func (f *glFn) finishBody(body string) string {
	return retRe.ReplaceAllStringFunc(body, func(m string) string {
		inner := strings.TrimSuffix(strings.TrimPrefix(m, "⟪"), "⟫")
		var parts []string
		if inner != "" || strings.Contains(m, "⟪⟫") && false {
			parts = strings.Split(inner, "⟫⟪")
		}
		if m == "⟪⟫" {
			parts = nil
		}
		if f.fnEff {
			parts = append(parts, "eff__")
		}
		return tuple(parts)
	})
}

func tuple(parts []string) string {
	switch len(parts) {
	case 0:
		return "()"
	case 1:
		return parts[0]
	}
	return "(" + strings.Join(parts, ", ") + ")"
}

func (f *glFn) leanName() string {
	if f.t.recv != "" {
		return f.t.recv + "." + lid(f.t.name)
	}
	return lid(f.t.name)
}

// checkEscaped: a local a pointer into which went to an opaque function may afterwards only be handed on — as `&v` /
// `&v.f` to a call, or as a plain argument of a call in statement position (an effect, where it is logged as unknown).
// Any other use would read a value the translation does not know.
func (f *glFn) checkEscaped(body *ast.BlockStmt) {
	if len(f.escaped) == 0 {
		return
	}
	var stack []ast.Node
	ast.Inspect(body, func(n ast.Node) bool {
		if n == nil {
			stack = stack[:len(stack)-1]
			return true
		}
		stack = append(stack, n)
		id, ok := n.(*ast.Ident)
		if !ok || !f.escaped[f.p.TypesInfo.Uses[id]] {
			return true
		}
		// walk up: [.. CallExpr, (UnaryExpr &)?, (SelectorExpr)?, Ident]
		i := len(stack) - 2
		if i >= 0 {
			if se, ok := stack[i].(*ast.SelectorExpr); ok && se.X == id {
				i--
			}
		}
		underAmp := false
		if i >= 0 {
			if u, ok := stack[i].(*ast.UnaryExpr); ok && u.Op == token.AND {
				underAmp = true
				i--
			}
		}
		if i >= 0 {
			if c, ok := stack[i].(*ast.CallExpr); ok {
				isArg := false
				for _, a := range c.Args {
					if a == stack[i+1] {
						isArg = true
					}
				}
				_, stmtPos := interface{}(nil), false
				if i >= 1 {
					_, stmtPos = stack[i-1].(*ast.ExprStmt)
				}
				if isArg && (underAmp || stmtPos) {
					return true
				}
			}
		}
		f.fail(id, "read of %s, a local written behind the translation's back (a pointer into it was handed to an opaque function)", id.Name)
		return true
	})
}

func (f *glFn) sigOf() *types.Signature {
	if f.sig != nil {
		return f.sig
	}
	return f.p.TypesInfo.Defs[f.fd.Name].Type().(*types.Signature)
}

// literalOf: for a `lit` target, the declaration that stands for the one function literal the function returns: the
// parameters of the function (the variables the literal captures) followed by the literal's own, and the literal's body.
// The statements of the function before that return are not translated (they replace nil collaborators by no-op ones).
func literalOf(p *packages.Package, fd *ast.FuncDecl) (*ast.FuncDecl, *types.Signature) {
	var lit *ast.FuncLit
	for _, st := range fd.Body.List {
		if r, ok := st.(*ast.ReturnStmt); ok && len(r.Results) == 1 {
			if l, ok := r.Results[0].(*ast.FuncLit); ok {
				lit = l
			}
		}
	}
	if lit == nil {
		return nil, nil
	}
	params := &ast.FieldList{}
	params.List = append(params.List, fd.Type.Params.List...)
	params.List = append(params.List, lit.Type.Params.List...)
	nd := &ast.FuncDecl{Name: fd.Name, Type: &ast.FuncType{Params: params, Results: lit.Type.Results}, Body: lit.Body}
	sg, _ := p.TypesInfo.TypeOf(lit).(*types.Signature)
	return nd, sg
}

func (f *glFn) translate() {
	fd := f.fd
	sig := f.sigOf()
	// the receiver and the parameters keep their names; later variables of the same name get a suffix
	if fd.Recv != nil {
		for _, n := range fd.Recv.List[0].Names {
			f.idName(n)
		}
	}
	for _, fl := range fd.Type.Params.List {
		for _, n := range fl.Names {
			f.idName(n)
			if _, isChan := f.p.TypesInfo.Defs[n].Type().Underlying().(*types.Chan); !isChan {
				f.leanType(f.p.TypesInfo.Defs[n].Type()) // declares the structures the signature mentions
			}
		}
	}
	// in-outs: pointer receiver and pointer parameters to repo structs
	var rets []string
	if fd.Recv != nil && len(fd.Recv.List[0].Names) == 1 {
		if _, ok := sig.Recv().Type().(*types.Pointer); ok {
			f.inouts = append(f.inouts, fd.Recv.List[0].Names[0].Name)
			f.recvInOut = true
			rets = append(rets, f.leanType(sig.Recv().Type()))
		}
	}
	pi := 0
	for _, fl := range fd.Type.Params.List {
		for _, n := range fl.Names {
			if isPtrToRepoStruct(f.p.TypesInfo.Defs[n].Type()) {
				f.inouts = append(f.inouts, n.Name)
				f.ptrParams = append(f.ptrParams, pi)
				rets = append(rets, f.leanType(f.p.TypesInfo.Defs[n].Type()))
			}
			pi++
		}
	}
	f.nres = sig.Results().Len()
	f.resAs = map[int]types.Type{}
	for i := 0; i < sig.Results().Len(); i++ {
		if _, isI := sig.Results().At(i).Type().Underlying().(*types.Interface); !isI {
			continue
		}
		var one types.Type
		okAll := true
		ast.Inspect(fd.Body, func(n ast.Node) bool {
			if _, ok := n.(*ast.FuncLit); ok {
				return false
			}
			if r, ok := n.(*ast.ReturnStmt); ok && len(r.Results) == sig.Results().Len() {
				e := r.Results[i]
				if isNilIdent(e) {
					return true
				}
				t := f.typeOf(e)
				if !isPtrToRepoStruct(t) || (one != nil && !types.Identical(one, t)) {
					okAll = false
				}
				one = t
			}
			return true
		})
		if okAll && one != nil {
			f.resAs[i] = one // the dynamic value of this interface result is nil or a *T: it is translated as the pointer
		}
	}
	for i := 0; i < sig.Results().Len(); i++ {
		rt := sig.Results().At(i).Type()
		if t, ok := f.resAs[i]; ok {
			rt = t
		}
		if isPtrResult(rt) {
			rets = append(rets, "(Option "+f.leanType(rt)+")") // a pointer result may be nil
		} else {
			rets = append(rets, f.leanType(rt))
		}
	}
	if len(rets) == 0 {
		f.retTyp = "Unit"
	} else {
		f.retTyp = strings.Join(rets, " × ")
	}
	// named results are ordinary variables that start at zero
	if rs := fd.Type.Results; rs != nil {
		for _, fl := range rs.List {
			for _, n := range fl.Names {
				if n.Name != "_" {
					t := f.p.TypesInfo.Defs[n].Type()
					f.emit(1, "let mut "+f.idName(n)+" : "+f.leanType(t)+" := "+f.g.zero(t, f.t.strBytes))
				}
			}
		}
	}
	list := fd.Body.List
	// nil-receiver guard `if c == nil { return X }` : split off (the receiver is a value here)
	if len(list) > 0 && len(f.inouts) == 1 {
		if is, ok := list[0].(*ast.IfStmt); ok && is.Init == nil && is.Else == nil {
			if be, ok := is.Cond.(*ast.BinaryExpr); ok && be.Op == token.EQL {
				if id, ok := be.X.(*ast.Ident); ok && id.Name == f.inouts[0] {
					if n, ok := be.Y.(*ast.Ident); ok && n.Name == "nil" {
						if len(is.Body.List) == 1 {
							if rs, ok := is.Body.List[0].(*ast.ReturnStmt); ok {
								var parts []string
								for i, r := range rs.Results {
									parts = append(parts, f.exprAs(r, sig.Results().At(i).Type()))
								}
								f.nilRet = tuple(parts)
								list = list[1:]
							}
						}
					}
				}
			}
		}
	}
	for _, s := range list {
		f.stmt(s, 1)
	}
	f.checkEscaped(fd.Body)
	// a body that ends in panic(...): the statement after it is never reached, but the `do` block needs a value
	if n := len(list); n > 0 && sig.Results().Len() > 0 {
		if es, ok := list[n-1].(*ast.ExprStmt); ok {
			if c, ok := es.X.(*ast.CallExpr); ok {
				if id, ok := c.Fun.(*ast.Ident); ok && id.Name == "panic" {
					var parts []string
					for _, io := range f.inouts {
						parts = append(parts, lid(io))
					}
					for i := 0; i < sig.Results().Len(); i++ {
						if isPtrResult(sig.Results().At(i).Type()) {
							parts = append(parts, "none")
						} else {
							parts = append(parts, f.g.zero(sig.Results().At(i).Type(), f.t.strBytes))
						}
					}
					f.emit(1, "return "+retMark(parts)+"  -- unreachable: the panic above ends the function")
				}
			}
		}
	}
	// falling off the end
	if sig.Results().Len() == 0 {
		var parts []string
		for _, io := range f.inouts {
			parts = append(parts, lid(io))
		}
		f.emit(1, "return "+retMark(parts))
	}
}

func (f *glFn) header() string {
	fd := f.fd
	var ps []string
	for _, e := range f.extras {
		ps = append(ps, "("+e.name+" : "+e.typ+")")
	}
	var muts []string
	if fd.Recv != nil && len(fd.Recv.List[0].Names) == 1 {
		n := fd.Recv.List[0].Names[0]
		ps = append(ps, "("+lid(n.Name)+" : "+f.leanType(f.p.TypesInfo.Defs[n].Type())+")")
		muts = append(muts, lid(n.Name))
	}
	for _, fl := range fd.Type.Params.List {
		for _, n := range fl.Names {
			if _, isChan := f.p.TypesInfo.Defs[n].Type().Underlying().(*types.Chan); isChan {
				continue // a channel the function only hands on to calls that are dropped
			}
			ps = append(ps, "("+lid(n.Name)+" : "+f.leanType(f.p.TypesInfo.Defs[n].Type())+")")
			if n.Name != "_" {
				muts = append(muts, lid(n.Name))
			}
		}
	}
	rt := f.retTyp
	if f.fnEff {
		if rt == "Unit" {
			rt = "List Eff"
		} else {
			rt += " × List Eff"
		}
	}
	h := "def " + f.leanName() + " " + strings.Join(ps, " ") + " : Option (" + rt + ") := do\n"
	for _, m := range muts {
		h += "  let mut " + m + " := " + m + "\n"
	}
	if f.fnEff {
		h += "  let mut eff__ : List Eff := []  -- calls on interface parameters, in order\n"
	}
	return h
}

func genCode() {
	g := &golean{pkgs: map[string]*packages.Package{}, fns: map[string]*glFn{}, structs: map[string]*types.Named{}, effs: map[string]bool{}, strMode: map[string]bool{}, keyStructs: map[string]bool{}, listElemOf: map[string]string{}}
	cfg := &packages.Config{Mode: packages.NeedName | packages.NeedSyntax | packages.NeedTypes | packages.NeedTypesInfo | packages.NeedImports | packages.NeedDeps | packages.NeedFiles, Dir: repo}
	want := map[string]bool{}
	for _, t := range glTargets {
		want["./"+t.pkg] = true
	}
	var pats []string
	for p := range want {
		pats = append(pats, p)
	}
	sort.Strings(pats)
	loaded, err := packages.Load(cfg, pats...)
	if err != nil {
		miss("golean: packages.Load: %v", err)
		return
	}
	for _, p := range loaded {
		rel := strings.TrimPrefix(p.PkgPath, "github.com/Jigsaw-Code/outline-ss-server/")
		g.pkgs[rel] = p
		if len(p.Errors) > 0 {
			miss("golean: package %s has errors: %v", rel, p.Errors[0])
		}
	}
	out := newLean("Code.lean")
	out.p("import OutlineModel.Model.GoRT")
	out.p("import OutlineModel.Model.IP")
	out.p("import OutlineModel.Gen.PrivateNets")
	out.p("/-")
	out.p("Lean translations of Go functions of /repo's working tree (extract/golean.go).  Every definition is a")
	out.p("`do` block in the Option monad: `none` means that the Go function panics.  A pointer receiver is")
	out.p("threaded through: it is the first component of the result.  `eff` fields record calls on embedded or")
	out.p("field interfaces in order.  Parameters in front of the receiver stand for what the function gets")
	out.p("from outside: the clock reading (`now`), functions kept opaque, interface methods.")
	out.p("-/")
	out.p("set_option linter.unusedVariables false")
	out.p("namespace OutlineModel.Gen.Code")
	out.p("open OutlineModel OutlineModel.GoRT")
	for _, t := range glTargets {
		p := g.pkgs[t.pkg]
		if p == nil {
			miss("golean: package %s not loaded", t.pkg)
			continue
		}
		var fd *ast.FuncDecl
		for _, file := range p.Syntax {
			fname := p.Fset.Position(file.Pos()).Filename
			if strings.HasSuffix(fname, "_test.go") || strings.HasPrefix(fname[strings.LastIndex(fname, "/")+1:], "verif_") {
				continue
			}
			for _, d := range file.Decls {
				if x, ok := d.(*ast.FuncDecl); ok && x.Name.Name == t.name && x.Body != nil {
					r := ""
					if x.Recv != nil && len(x.Recv.List) == 1 {
						r = typeName(x.Recv.List[0].Type)
					}
					if r == t.recv {
						fd = x
					}
				}
			}
		}
		if fd == nil {
			miss("golean: function %s.%s.%s not found", t.pkg, t.recv, t.name)
			continue
		}
		f := &glFn{t: t, p: p, fd: fd, g: g}
		if t.lit {
			nd, sg := literalOf(p, fd)
			if nd == nil || sg == nil {
				miss("golean: %s.%s does not return a function literal", t.pkg, t.name)
				continue
			}
			f.fd, f.sig = nd, sg
		}
		g.curListElem = t.listElem
		f.translate()
		key := t.pkg + "." + t.recv + "." + t.name
		g.fns[key] = f
		g.order = append(g.order, key)
		for _, e := range f.errs {
			miss("%s", e)
		}
	}
	// structures first
	for _, name := range g.sorder {
		n := g.structs[name]
		st := n.Underlying().(*types.Struct)
		g.curListElem = g.listElemOf[name]
		out.p("")
		out.p("/-- %s.%s -/", n.Obj().Pkg().Name(), name)
		out.p("structure %s where", name)
		var zs []string
		for i := 0; i < st.NumFields(); i++ {
			fv := st.Field(i)
			if !g.fieldKept(fv) {
				out.p("  -- %s %s: not part of the translated state", fv.Name(), types.TypeString(fv.Type(), func(p *types.Package) string { return p.Name() }))
				continue
			}
			out.p("  %s : %s", lid(fv.Name()), g.leanType(fv.Type(), g.strMode[name], nil))
			zs = append(zs, lid(fv.Name())+" := "+g.zero(fv.Type(), g.strMode[name]))
		}
		if g.effs[name] {
			out.p("  eff : List Eff")
			zs = append(zs, "eff := []")
		}
		if g.keyStructs[name] {
			out.p("deriving Repr, DecidableEq")
		} else {
			out.p("deriving Repr")
		}
		out.p("def %s.zero : %s := { %s }", name, name, strings.Join(zs, ", "))
		// the value flattened to atoms (for effect logs), when every field has such a form
		var as []string
		okAll := true
		for i := 0; i < st.NumFields(); i++ {
			fv := st.Field(i)
			if !g.fieldKept(fv) {
				continue
			}
			lt := g.leanType(fv.Type(), g.strMode[name], nil)
			switch {
			case lt == "Int":
				as = append(as, "[Atom.int x."+lid(fv.Name())+"]")
			case lt == "String":
				as = append(as, "[Atom.str x."+lid(fv.Name())+"]")
			case lt == "Bool":
				as = append(as, "[Atom.bool x."+lid(fv.Name())+"]")
			case strings.HasPrefix(lt, "(Opaque "):
				as = append(as, "[Atom.tok x."+lid(fv.Name())+".val]")
			default:
				if _, isS := g.structs[lt]; isS {
					as = append(as, lt+".atoms x."+lid(fv.Name()))
				} else {
					okAll = false
				}
			}
		}
		if okAll {
			if len(as) == 0 {
				as = []string{"[]"}
			}
			out.p("def %s.atoms (x : %s) : List Atom := %s", name, name, strings.Join(as, " ++ "))
		}
	}
	for _, key := range g.order {
		f := g.fns[key]
		out.p("")
		out.p("/-- %s.%s%s  [%s] -/", f.t.pkg, map[bool]string{true: f.t.recv + ".", false: ""}[f.t.recv != ""], f.t.name, glPos(f.p.Fset, f.fd))
		if f.nilRet != "" {
			out.p("-- on a nil receiver the function returns this without touching anything")
			out.p("def %s.onNil : %s := %s", f.leanName(), strings.TrimPrefix(f.retTyp, f.leanType(f.p.TypesInfo.Defs[f.fd.Name].Type().(*types.Signature).Recv().Type())+" × "), f.nilRet)
		}
		out.b.WriteString(f.header())
		out.b.WriteString(f.finishBody(f.body.String()))
	}
	out.p("")
	out.p("end OutlineModel.Gen.Code")
	out.write()
}

func glPos(fs *token.FileSet, n ast.Node) string {
	p := fs.Position(n.Pos())
	r := strings.TrimPrefix(p.Filename, repo+"/")
	return fmt.Sprintf("%s:%d", r, p.Line)
}
