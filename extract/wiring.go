package main

import (
	"go/ast"
	"go/token"
	"strings"
)

// Wiring facts: shapes of the source that theorems rely on as hypotheses.  Each is a named Bool in
// Gen/Wiring.lean; the property files prove `fact = true` by `decide`, so a fact that no longer
// holds (or whose source shape is no longer recognised) breaks a proof obligation.

type fact struct {
	name  string
	ok    bool
	where string
	doc   string
}

func bodyOf(p *Pkg, recv, name string) *ast.BlockStmt {
	fd := p.findFunc(recv, name)
	if fd == nil {
		return nil
	}
	return fd.Body
}

func containsCall(n ast.Node, fun string) (found bool, where string) {
	if n == nil {
		return false, ""
	}
	ast.Inspect(n, func(m ast.Node) bool {
		if c, ok := m.(*ast.CallExpr); ok && exprString(c.Fun) == fun {
			found, where = true, pos(c)
			return false
		}
		return true
	})
	return
}

func callsOf(n ast.Node, fun string) []*ast.CallExpr {
	var out []*ast.CallExpr
	if n == nil {
		return nil
	}
	ast.Inspect(n, func(m ast.Node) bool {
		if c, ok := m.(*ast.CallExpr); ok && exprString(c.Fun) == fun {
			out = append(out, c)
		}
		return true
	})
	return out
}

func genWiring() {
	svc := loadPkg("service")
	cmd := loadPkg("cmd/outline-ss-server")
	var facts []fact
	add := func(name string, ok bool, where, doc string) { facts = append(facts, fact{name, ok, where, doc}) }

	// ---- authenticator: server-salt test first, then the replay cache; writer gets the entry's generator
	{
		ok1, ok2, ok3 := false, false, false
		where := ""
		fd := svc.findFunc("", "NewShadowsocksStreamAuthenticator")
		if fd != nil {
			where = pos(fd)
			ast.Inspect(fd.Body, func(n ast.Node) bool {
				if is, ok := n.(*ast.IfStmt); ok {
					if be, ok := is.Cond.(*ast.BinaryExpr); ok && be.Op == token.LOR {
						l, r := exprString(be.X), exprString(be.Y)
						if l == "isServerSalt" && strings.HasPrefix(r, "!replayCache.Add(cipherEntry.ID,clientSalt)") {
							ok1 = true
						}
					}
				}
				if as, ok := n.(*ast.AssignStmt); ok && len(as.Lhs) == 1 && exprString(as.Lhs[0]) == "isServerSalt" {
					if exprString(as.Rhs[0]) == "cipherEntry.SaltGenerator.IsServerSalt(clientSalt)" {
						ok2 = true
					}
				}
				return true
			})
			for _, c := range callsOf(fd.Body, "ssw.SetSaltGenerator") {
				if len(c.Args) == 1 && exprString(c.Args[0]) == "cipherEntry.SaltGenerator" {
					ok3 = true
				}
			}
		}
		add("authServerSaltBeforeReplayCache", ok1 && ok2, where, "authenticator tests `isServerSalt || !replayCache.Add(cipherEntry.ID, clientSalt)` with isServerSalt computed from the matched entry's generator")
		add("authWriterUsesEntrySaltGenerator", ok3, where, "the response writer gets `cipherEntry.SaltGenerator` (ssw.SetSaltGenerator)")
	}
	// ---- MakeCipherEntry: marked generator iff saltSize - markLen >= minSaltEntropy
	{
		ok := false
		where := ""
		if fd := svc.findFunc("", "MakeCipherEntry"); fd != nil {
			where = pos(fd)
			ast.Inspect(fd.Body, func(n ast.Node) bool {
				if is, isIf := n.(*ast.IfStmt); isIf && exprString(is.Cond) == "cryptoKey.SaltSize()-serverSaltMarkLen>=minSaltEntropy" {
					a, _ := containsCall(is.Body, "NewServerSaltGenerator")
					if a && is.Else != nil && strings.Contains(nodeString(is.Else), "RandomServerSaltGenerator") {
						ok = true
					}
				}
				return true
			})
		}
		add("markedIffEnoughEntropy", ok, where, "MakeCipherEntry uses the marking generator iff SaltSize()-serverSaltMarkLen >= minSaltEntropy")
	}
	// ---- one replay cache for the whole process
	{
		ok := true
		n := 0
		where := ""
		for _, fn := range cmd.sortedFiles() {
			for _, c := range callsOf(cmd.Files[fn], "service.WithReplayCache") {
				n++
				where = pos(c)
				if len(c.Args) != 1 || exprString(c.Args[0]) != "&s.replayCache" {
					ok = false
				}
			}
		}
		// the field is set only in the composite literal of RunOutlineServer
		assigns := 0
		for _, fn := range cmd.sortedFiles() {
			ast.Inspect(cmd.Files[fn], func(nd ast.Node) bool {
				switch x := nd.(type) {
				case *ast.AssignStmt:
					for _, l := range x.Lhs {
						if strings.HasSuffix(exprString(l), ".replayCache") {
							assigns++
						}
					}
				case *ast.KeyValueExpr:
					if exprString(x.Key) == "replayCache" {
						assigns += 100
					}
				}
				return true
			})
		}
		add("singleReplayCache", ok && n >= 1 && assigns == 100, where, "every service.WithReplayCache argument in main.go is &s.replayCache, and the field is set once, in RunOutlineServer's literal")
	}
	// ---- loadConfig: start new before stopping old
	{
		ok := false
		where := ""
		if b := bodyOf(cmd, "OutlineServer", "loadConfig"); b != nil {
			var pRun, pStop token.Pos
			for _, c := range callsOf(b, "s.runConfig") {
				pRun = c.Pos()
				where = pos(c)
			}
			for _, c := range callsOf(b, "s.Stop") {
				pStop = c.Pos()
			}
			ok = pRun != 0 && pStop != 0 && pRun < pStop
		}
		add("reloadStartsNewBeforeStoppingOld", ok, where, "loadConfig calls s.runConfig (acquire all new listeners) before s.Stop (close the old ones)")
	}
	// ---- default destination policy
	{
		e, n := svc.findValue("defaultDialer")
		ok := e != nil && exprString(e) == "makeValidatingTCPStreamDialer(onet.RequirePublicIP)"
		where := ""
		if n != nil {
			where = pos(n)
		}
		ok2 := false
		if fd := svc.findFunc("", "NewStreamHandler"); fd != nil {
			ok2 = strings.Contains(nodeString(fd.Body), "dialer:defaultDialer")
		}
		add("tcpDefaultDialerRequiresPublicIP", ok && ok2, where, "NewStreamHandler installs defaultDialer = makeValidatingTCPStreamDialer(onet.RequirePublicIP)")
		ok3 := false
		if fd := svc.findFunc("", "makeValidatingTCPStreamDialer"); fd != nil {
			s := nodeString(fd.Body)
			ok3 = strings.Contains(s, "Control:func{...}") || (strings.Contains(s, "net.SplitHostPort(address)") && strings.Contains(s, "targetIPValidator(net.ParseIP(ip))"))
			ast.Inspect(fd.Body, func(n ast.Node) bool {
				if fl, isFl := n.(*ast.FuncLit); isFl {
					t := nodeString(fl.Body)
					if strings.Contains(t, "net.SplitHostPort(address)") && strings.Contains(t, "returntargetIPValidator(net.ParseIP(ip))") {
						ok3 = true
					} else {
						ok3 = false
					}
				}
				return true
			})
		}
		add("tcpControlValidatesEveryDialledIP", ok3, where, "the dialer's Control hook returns targetIPValidator(net.ParseIP(host of the address being connected))")
		ok4 := false
		if fd := svc.findFunc("", "NewPacketHandler"); fd != nil {
			ok4 = strings.Contains(nodeString(fd.Body), "targetIPValidator:onet.RequirePublicIP")
		}
		add("udpDefaultValidatorRequiresPublicIP", ok4, where, "NewPacketHandler installs onet.RequirePublicIP")
	}
	// ---- UDP: every datagram validated, unconditionally, and the validated address is the one written to
	{
		okBoth, okUncond, okAddr, okBuf := false, false, false, false
		where := ""
		if b := bodyOf(svc, "packetHandler", "Handle"); b != nil {
			where = pos(b)
			okBoth = len(callsOf(b, "h.validatePacket")) == 2
			for _, c := range callsOf(b, "targetConn.WriteTo") {
				if len(c.Args) == 2 && exprString(c.Args[0]) == "payload" && exprString(c.Args[1]) == "tgtUDPAddr" {
					okAddr = true
				}
			}
			// trial-decryption buffers are locals of Handle, distinct
			locals := map[string]bool{}
			ast.Inspect(b, func(n ast.Node) bool {
				if as, isAs := n.(*ast.AssignStmt); isAs && as.Tok == token.DEFINE && len(as.Lhs) == 1 && len(as.Rhs) == 1 {
					if strings.HasPrefix(exprString(as.Rhs[0]), "make(") {
						locals[exprString(as.Lhs[0])] = true
					}
				}
				return true
			})
			for _, c := range callsOf(b, "findAccessKeyUDP") {
				if len(c.Args) >= 3 && locals[exprString(c.Args[1])] && exprString(c.Args[1]) != exprString(c.Args[2]) && exprString(c.Args[2]) == "cipherData" {
					okBuf = true
				}
			}
		}
		if fd := svc.findFunc("packetHandler", "validatePacket"); fd != nil {
			// the validator call is the init/cond of a top-level statement of the function body
			for _, st := range fd.Body.List {
				if is, isIf := st.(*ast.IfStmt); isIf && is.Init != nil {
					if strings.Contains(nodeString(is.Init), "h.targetIPValidator(tgtUDPAddr.IP)") {
						okUncond = true
					}
				}
			}
			// and its result address is what ResolveUDPAddr returned for the packet's own header
			s := nodeString(fd.Body)
			if !strings.Contains(s, "net.ResolveUDPAddr(\"udp\",tgtAddr.String())") {
				okUncond = false
			}
		}
		add("udpValidatesBothBranches", okBoth, where, "packetHandler.Handle calls h.validatePacket on the new-client and on the known-client branch")
		add("udpValidatorUnconditional", okUncond, where, "validatePacket calls h.targetIPValidator(tgtUDPAddr.IP) unconditionally on the address resolved from the packet's own header")
		add("udpWritesToValidatedAddress", okAddr, where, "the datagram is written with targetConn.WriteTo(payload, tgtUDPAddr), the validated address")
		add("udpTrialBuffersLocalAndDistinct", okBuf, where, "findAccessKeyUDP gets a destination buffer that is a local of Handle and differs from the source")
	}
	// ---- TCP handler: probe branch and AddAuthenticated placement
	{
		ok1, ok2 := false, false
		where := ""
		if b := bodyOf(svc, "streamHandler", "handleConnection"); b != nil {
			where = pos(b)
			var pAuthErr, pAddAuth token.Pos
			for _, st := range b.List {
				if is, isIf := st.(*ast.IfStmt); isIf && exprString(is.Cond) == "authErr!=nil" {
					a, _ := containsCall(is.Body, "h.absorbProbe")
					if a && strings.Contains(nodeString(is.Body), "returnauthErr") {
						ok1 = true
						pAuthErr = is.End()
					}
				}
				if es, isEs := st.(*ast.ExprStmt); isEs && exprString(es.X) == "connMetrics.AddAuthenticated(id)" {
					pAddAuth = es.Pos()
				}
			}
			ok2 = pAuthErr != 0 && pAddAuth > pAuthErr && len(callsOf(b, "connMetrics.AddAuthenticated")) == 1
		}
		add("tcpAuthFailureIsAbsorbed", ok1, where, "handleConnection: on authErr it calls h.absorbProbe and returns authErr (whatever the status: cipher, client replay, server replay)")
		add("tcpAddAuthenticatedOnlyAfterAuth", ok2, where, "connMetrics.AddAuthenticated(id) is called once, after the authErr branch")
	}
	// ---- the probe drain reads the client connection itself, to its end: no cap, no wrapper around it
	{
		ok := false
		where := ""
		if fd := svc.findFunc("streamHandler", "absorbProbe"); fd != nil && fd.Body != nil && len(fd.Type.Params.List) > 0 && len(fd.Type.Params.List[0].Names) > 0 {
			where = pos(fd.Body)
			conn := fd.Type.Params.List[0].Names[0].Name // the first parameter, whatever it is called
			copies := callsOf(fd.Body, "io.Copy")
			ok = len(copies) == 1 && len(copies[0].Args) == 2 && exprString(copies[0].Args[0]) == "io.Discard" && exprString(copies[0].Args[1]) == conn
			// ... and nothing else reads from it or bounds it
			for _, bad := range []string{"io.CopyN", "io.LimitReader", "io.ReadFull", "io.ReadAtLeast", conn + ".Read", conn + ".SetReadDeadline", conn + ".SetDeadline", conn + ".Close", conn + ".CloseRead"} {
				if len(callsOf(fd.Body, bad)) > 0 {
					ok = false
				}
			}
		}
		add("tcpProbeDrainIsTheWholeConnection", ok, where, "absorbProbe drains with exactly one io.Copy(io.Discard, <its connection parameter>): the connection itself, unbounded, and it neither closes it nor touches its deadline")
	}
	// ---- every accepted connection is reported opened exactly once, before it is handled
	{
		ok := false
		where := ""
		if b := bodyOf(svc, "ssService", "HandleStream"); b != nil {
			where = pos(b)
			opens := callsOf(b, "s.metrics.AddOpenTCPConnection")
			handles := callsOf(b, "s.sh.Handle")
			ok = len(opens) == 1 && len(handles) == 1 && opens[0].Pos() < handles[0].Pos()
		}
		okClosed := false
		if b := bodyOf(svc, "streamHandler", "Handle"); b != nil {
			closes := callsOf(b, "connMetrics.AddClosed")
			hc := callsOf(b, "h.handleConnection")
			// AddClosed is a top-level statement of Handle after handleConnection: every path reaches it
			top := false
			for _, st := range b.List {
				if es, isEs := st.(*ast.ExprStmt); isEs && strings.HasPrefix(exprString(es.X), "connMetrics.AddClosed(") {
					top = true
				}
			}
			okClosed = len(closes) == 1 && len(hc) == 1 && hc[0].Pos() < closes[0].Pos() && top
		}
		add("tcpOpenedOnceBeforeHandle", ok, where, "ssService.HandleStream calls AddOpenTCPConnection exactly once and then sh.Handle")
		add("tcpClosedOnceAfterHandleConnection", okClosed, where, "streamHandler.Handle calls connMetrics.AddClosed exactly once, unconditionally, after handleConnection returned")
	}
	// ---- the listener manager hands out acquired listeners only wrapped, and keeps the shared listener private
	{
		okS, okP := false, false
		where := ""
		check := func(method, wrapper, field, ctor string) bool {
			fd := svc.findFunc("listenerManager", method)
			if fd == nil {
				return false
			}
			where = pos(fd)
			good, bad := 0, 0
			ast.Inspect(fd.Body, func(n ast.Node) bool {
				if _, isLit := n.(*ast.FuncLit); isLit {
					return false
				}
				if rs, ok := n.(*ast.ReturnStmt); ok && len(rs.Results) == 2 {
					r0 := nodeString(rs.Results[0])
					if r0 == "nil" {
						return true
					}
					if strings.HasPrefix(r0, "&"+wrapper) && strings.Contains(r0, field+":ln") && strings.Contains(r0, "managerMu:&m.mu") {
						good++
					} else {
						bad++
					}
				}
				return true
			})
			// the shared listener built here is only stored in the manager's map and Acquire'd
			ctorCalls := len(callsOf(fd.Body, ctor))
			return good == 1 && bad == 0 && ctorCalls == 1
		}
		okS = check("ListenStream", "managedStreamListener", "StreamListener", "NewMultiStreamListener")
		okP = check("ListenPacket", "managedPacketConn", "PacketConn", "NewMultiPacketListener")
		add("managerReturnsOnlyWrappedListeners", okS && okP, where, "ListenStream/ListenPacket return the acquired listener only inside managedStreamListener/managedPacketConn (whose Close takes m.mu first), and build the shared listener with the on-close closure in exactly one place")
	}
	// ---- configuration load / reload (C09, C10, C11)
	{
		// loadConfig: read, parse, validate, start the new generation, stop the old one, remember the
		// new stop function — in this order, and nothing of the server is assigned before runConfig succeeded
		ok := false
		where := ""
		if b := bodyOf(cmd, "OutlineServer", "loadConfig"); b != nil {
			where = pos(b)
			first := func(fun string) token.Pos {
				cs := callsOf(b, fun)
				if len(cs) != 1 {
					return 0
				}
				return cs[0].Pos()
			}
			ps := []token.Pos{first("os.ReadFile"), first("readConfig"), first("config.Validate"), first("s.runConfig"), first("s.Stop")}
			ordered := true
			for i, p := range ps {
				if p == 0 || (i > 0 && ps[i-1] >= p) {
					ordered = false
				}
			}
			var assigns []token.Pos
			ast.Inspect(b, func(n ast.Node) bool {
				if as, ok := n.(*ast.AssignStmt); ok {
					for _, l := range as.Lhs {
						if strings.HasPrefix(exprString(l), "s.") {
							assigns = append(assigns, as.Pos())
							if exprString(l) != "s.stopConfig" || exprString(as.Rhs[0]) != "stopConfig" {
								ordered = false
							}
						}
					}
				}
				return true
			})
			ok = ordered && len(assigns) == 1 && assigns[0] > ps[4]
			// every failing return comes before s.Stop
			ast.Inspect(b, func(n ast.Node) bool {
				if r, isRet := n.(*ast.ReturnStmt); isRet && len(r.Results) == 1 && exprString(r.Results[0]) != "nil" && r.Pos() > ps[4] {
					ok = false
				}
				return true
			})
		}
		add("loadConfigStages", ok, where, "loadConfig: os.ReadFile, readConfig, config.Validate, s.runConfig, s.Stop once each in this order; the only assignment to the server is s.stopConfig = stopConfig after s.Stop; every failing return precedes s.Stop")
	}
	{
		// runConfig: every listener is taken through the generation's listenerSet; a failed start closes the set
		ok, ok2 := false, false
		where := ""
		if b := bodyOf(cmd, "OutlineServer", "runConfig"); b != nil {
			where = pos(b)
			direct := 0
			ast.Inspect(b, func(n ast.Node) bool {
				if c, isCall := n.(*ast.CallExpr); isCall {
					f := exprString(c.Fun)
					if (strings.HasSuffix(f, ".ListenStream") || strings.HasSuffix(f, ".ListenPacket")) && !strings.HasPrefix(f, "lnSet.") {
						direct++
					}
				}
				return true
			})
			ok = direct == 0 && len(callsOf(b, "lnSet.ListenStream")) == 2 && len(callsOf(b, "lnSet.ListenPacket")) == 2
			ast.Inspect(b, func(n ast.Node) bool {
				if is, isIf := n.(*ast.IfStmt); isIf && exprString(is.Cond) == "startErr!=nil" {
					closes := len(callsOf(is.Body, "lnSet.Close")) == 1
					sends, returns := false, false
					for _, st := range is.Body.List {
						if ss, isSend := st.(*ast.SendStmt); isSend && exprString(ss.Chan) == "startErrCh" && exprString(ss.Value) == "startErr" {
							sends = true
						}
						if _, isRet := st.(*ast.ReturnStmt); isRet {
							returns = true
						}
					}
					ok2 = closes && sends && returns
				}
				return true
			})
		}
		add("generationListenersInOneSet", ok, where, "runConfig takes every listener through lnSet.ListenStream / lnSet.ListenPacket (two call sites each: legacy ports, services) and never from the manager directly")
		add("failedStartClosesItsSet", ok2, where, "runConfig: `if startErr != nil` closes lnSet, reports startErr and returns")
	}
	{
		// Stop closes listeners only; the context the handlers get governs nothing but the dial
		ok := false
		where := ""
		if b := bodyOf(cmd, "listenerSet", "Close"); b != nil {
			where = pos(b)
			ok = true
			ast.Inspect(b, func(n ast.Node) bool {
				if c, isCall := n.(*ast.CallExpr); isCall {
					switch exprString(c.Fun) {
					case "ls.listenersMu.Lock", "ls.listenersMu.Unlock", "listenerCloseFunc", "fmt.Errorf":
					default:
						ok = false
					}
				}
				return true
			})
			ok = ok && len(callsOf(b, "listenerCloseFunc")) == 1
		}
		if b := bodyOf(cmd, "OutlineServer", "runConfig"); b != nil {
			n := 0
			ast.Inspect(b, func(m ast.Node) bool {
				if ss, isSend := m.(*ast.SendStmt); isSend && exprString(ss.Chan) == "stopErrCh" {
					n++
					if exprString(ss.Value) != "lnSet.Close()" {
						ok = false
					}
				}
				return true
			})
			ok = ok && n == 1
		} else {
			ok = false
		}
		add("stopClosesListenersOnly", ok, where, "the stop function of a generation does lnSet.Close() and nothing else; listenerSet.Close only calls the recorded listener close functions")
		ctxOK := true
		uses := 0
		for _, fn := range []struct {
			recv, name string
			allowed    []string
		}{
			{"streamHandler", "Handle", []string{"h.handleConnection"}},
			{"streamHandler", "handleConnection", []string{"proxyConnection", "h.dialer.DialStream"}},
			{"", "proxyConnection", []string{"dialer.DialStream"}}} {
			fd := svc.findFunc(fn.recv, fn.name)
			if fd == nil {
				ctxOK = false
				continue
			}
			fine := map[*ast.Ident]bool{}
			for _, a := range fn.allowed {
				for _, c := range callsOf(fd.Body, a) {
					for _, arg := range c.Args {
						if id, isID := arg.(*ast.Ident); isID && id.Name == "ctx" {
							fine[id] = true
							uses++
						}
					}
				}
			}
			ast.Inspect(fd.Body, func(n ast.Node) bool {
				switch x := n.(type) {
				case *ast.FieldList: // parameter names of a closure
					for _, f := range x.List {
						for _, id := range f.Names {
							fine[id] = true
						}
					}
				case *ast.SelectorExpr: // ctx.Deadline(): a read; a cancelled context has no deadline
					if id, isID := x.X.(*ast.Ident); isID && id.Name == "ctx" && x.Sel.Name == "Deadline" {
						fine[id] = true
					}
				}
				return true
			})
			ast.Inspect(fd.Body, func(n ast.Node) bool {
				if id, isID := n.(*ast.Ident); isID && id.Name == "ctx" && !fine[id] {
					ctxOK = false
				}
				return true
			})
		}
		add("handlerContextGovernsOnlyTheDial", ctxOK && uses == 4, where, "the context StreamServe cancels when its listener closes is only passed Handle -> handleConnection -> proxyConnection -> dialer.DialStream: closing a listener cannot end a connection that is already relaying")
	}
	{
		// each service's listeners are served by a ShadowsocksService built from that service's keys
		ok := false
		where := ""
		if b := bodyOf(cmd, "OutlineServer", "runConfig"); b != nil {
			ast.Inspect(b, func(n ast.Node) bool {
				rs, isRange := n.(*ast.RangeStmt)
				if !isRange || exprString(rs.X) != "config.Services" {
					return true
				}
				where = pos(rs)
				newList := callsOf(rs.Body, "newCipherListFromConfig")
				with := callsOf(rs.Body, "service.WithCiphers")
				okArgs := len(newList) == 1 && len(newList[0].Args) == 1 && exprString(newList[0].Args[0]) == exprString(rs.Value) &&
					len(with) == 1 && len(with[0].Args) == 1 && exprString(with[0].Args[0]) == "ciphers"
				serves := 0
				ast.Inspect(rs.Body, func(m ast.Node) bool {
					if g, isGo := m.(*ast.GoStmt); isGo {
						s := exprString(g.Call)
						if strings.Contains(s, "ssService.HandleStream") || strings.Contains(s, "ssService.HandlePacket") {
							serves++
						}
					}
					return true
				})
				ok = okArgs && serves == 2
				return false
			})
		}
		add("serviceListenersServeOwnKeys", ok, where, "in runConfig's loop over config.Services the cipher list comes from newCipherListFromConfig(that service) and every listener of the loop body is served by the ShadowsocksService built WithCiphers(it)")
	}
	// ---- lifecycle (C18): handlers are joined, panics are contained, helper goroutines are joined
	{
		ok := false
		where := ""
		if fd := svc.findFunc("", "StreamServe"); fd != nil {
			where = pos(fd)
			waits := false
			for _, st := range fd.Body.List {
				if d, isDefer := st.(*ast.DeferStmt); isDefer && exprString(d.Call.Fun) == "running.Wait" {
					waits = true
				}
			}
			adds := len(callsOf(fd.Body, "running.Add")) == 1
			var goBody *ast.BlockStmt
			ast.Inspect(fd.Body, func(n ast.Node) bool {
				if g, isGo := n.(*ast.GoStmt); isGo {
					if fl, isLit := g.Call.Fun.(*ast.FuncLit); isLit {
						goBody = fl.Body
					}
				}
				return true
			})
			done, closes, recovers, handles := false, false, false, false
			if goBody != nil {
				for _, st := range goBody.List {
					if d, isDefer := st.(*ast.DeferStmt); isDefer {
						switch f := exprString(d.Call.Fun); {
						case f == "running.Done":
							done = true
						case f == "clientConn.Close":
							closes = true
						}
						if fl, isLit := d.Call.Fun.(*ast.FuncLit); isLit {
							if found, _ := containsCall(fl.Body, "recover"); found {
								recovers = true
							}
						}
					}
					if es, isExpr := st.(*ast.ExprStmt); isExpr {
						if c, isCall := es.X.(*ast.CallExpr); isCall && exprString(c.Fun) == "handle" {
							handles = done && closes && recovers // the defers come first
						}
					}
				}
			}
			ok = waits && adds && handles
		}
		add("streamServeJoinsAndContainsHandlers", ok, where, "StreamServe: `defer running.Wait()` at function level; each handler goroutine defers running.Done, clientConn.Close and a recover() before calling handle")
	}
	{
		ok := false
		where := ""
		if b := bodyOf(svc, "packetHandler", "Handle"); b != nil {
			where = pos(b)
			// the per-datagram closure inside the for loop starts with a deferred recover()
			ast.Inspect(b, func(n ast.Node) bool {
				fs, isFor := n.(*ast.ForStmt)
				if !isFor {
					return true
				}
				ast.Inspect(fs.Body, func(m ast.Node) bool {
					fl, isLit := m.(*ast.FuncLit)
					if !isLit || len(fl.Body.List) == 0 {
						return true
					}
					if d, isDefer := fl.Body.List[0].(*ast.DeferStmt); isDefer {
						if inner, isLit := d.Call.Fun.(*ast.FuncLit); isLit {
							if found, _ := containsCall(inner.Body, "recover"); found {
								ok = true
							}
						}
					}
					return true
				})
				return false
			})
		}
		add("udpLoopContainsPanicsPerDatagram", ok, where, "packetHandler.Handle: the per-datagram closure of the read loop begins with a deferred recover(), so a failure while handling one datagram does not end the loop")
	}
	{
		ok := false
		where := ""
		if fd := svc.findFunc("", "proxyConnection"); fd != nil {
			where = pos(fd)
			// after the `go` statement every return is preceded by the unconditional receive from the
			// channel the helper goroutine sends its result on (the helper is always joined)
			var goPos, recvPos token.Pos
			sends := 0
			for _, st := range fd.Body.List {
				switch x := st.(type) {
				case *ast.GoStmt:
					goPos = x.Pos()
					ast.Inspect(x, func(n ast.Node) bool {
						if ss, isSend := n.(*ast.SendStmt); isSend && exprString(ss.Chan) == "fromClientErrCh" {
							sends++
						}
						return true
					})
				case *ast.AssignStmt:
					if len(x.Rhs) == 1 {
						if u, isU := x.Rhs[0].(*ast.UnaryExpr); isU && u.Op == token.ARROW && exprString(u.X) == "fromClientErrCh" && recvPos == 0 {
							recvPos = x.Pos()
						}
					}
				}
			}
			ok = goPos != 0 && recvPos > goPos && sends == 1
			ast.Inspect(fd.Body, func(n ast.Node) bool {
				if _, isLit := n.(*ast.FuncLit); isLit {
					return false
				}
				if r, isRet := n.(*ast.ReturnStmt); isRet && r.Pos() > goPos && r.Pos() < recvPos {
					ok = false
				}
				return true
			})
		}
		add("relayJoinsItsUploadGoroutine", ok, where, "proxyConnection: the helper goroutine sends its result once on fromClientErrCh and the function receives it, as a top-level statement, before any return that follows the go statement")
	}
	{
		ok := false
		where := ""
		if b := bodyOf(svc, "natmap", "Add"); b != nil {
			where = pos(b)
			ast.Inspect(b, func(n ast.Node) bool {
				if g, isGo := n.(*ast.GoStmt); isGo {
					if fl, isLit := g.Call.Fun.(*ast.FuncLit); isLit {
						var order []string
						for _, st := range fl.Body.List {
							ast.Inspect(st, func(m ast.Node) bool {
								if c, isCall := m.(*ast.CallExpr); isCall {
									order = append(order, exprString(c.Fun))
								}
								return true
							})
						}
						ok = strings.Join(order, " ") == "timedCopy connMetrics.RemoveNatEntry m.del clientAddr.String pc.Close"
					}
				}
				return true
			})
		}
		add("natGoroutineRemovesAndCloses", ok, where, "natmap.Add's goroutine: timedCopy, then RemoveNatEntry, then the entry is deleted and its socket closed")
	}
	l := newLean("Wiring.lean")
	l.p("namespace OutlineModel.Gen.Wiring")
	for _, f := range facts {
		l.p("/-- %s  [%s] -/", f.doc, f.where)
		l.p("def %s : Bool := %v", f.name, f.ok)
	}
	l.p("end OutlineModel.Gen.Wiring")
	l.write()
	for _, f := range facts {
		if !f.ok {
			// not MISSING: the Lean obligation fails instead, naming the fact
			println("wiring fact does not hold:", f.name)
		}
	}
}

// nodeString renders a node compactly (no spaces) for shape matching.
func nodeString(n ast.Node) string {
	var sb strings.Builder
	ast.Inspect(n, func(m ast.Node) bool {
		switch x := m.(type) {
		case *ast.Ident:
			sb.WriteString(x.Name)
		case *ast.BasicLit:
			sb.WriteString(x.Value)
		case *ast.ReturnStmt:
			sb.WriteString("return")
		case *ast.SelectorExpr:
			sb.WriteString(exprString(x))
			return false
		case *ast.CallExpr:
			sb.WriteString(exprString(x.Fun) + "(")
			for i, a := range x.Args {
				if i > 0 {
					sb.WriteString(",")
				}
				sb.WriteString(nodeString(a))
			}
			sb.WriteString(")")
			return false
		case *ast.KeyValueExpr:
			sb.WriteString(nodeString(x.Key) + ":" + nodeString(x.Value))
			return false
		case *ast.FuncLit:
			sb.WriteString("func{...}")
			return false
		case *ast.UnaryExpr:
			sb.WriteString(x.Op.String())
		}
		return true
	})
	return sb.String()
}
