HOOK_COMMITS = []
NOT_APPLICABLE = {}
META = {
    "C03": dict(
        engine="E4 udp",
        technique="Lean 4 theorems on the packet-handler model (decision logic of Handle/validatePacket, in-place buffer arithmetic of timedCopy by omega); model tied by differential correspondence with the real handler over real sockets",
        text="Kernel-checked: forwarding implies authentication under a configured key (new client) or the association's key (known client), payload = plaintext after the header, search completeness for any list order, no effects without a key, reply layout salt‖seal(assoc key, true source ‖ body), truncated reads never relayed. The model is compared effect by effect with the real handler on ~2.5k datagram ops per quick run.",
        note="Trusted: Lean kernel; hand model validated differentially; spec-level crypto in the harness; AEAD strength and RNG freshness are contracts (salt freshness is checked empirically pairwise).",
    ),
    "C05": dict(
        engine="E1 bytes/addr (ip)",
        technique="Lean 4 theorems over all 4-byte, IPv4-mapped and 16-byte values (byte-mask lemmas by kernel evaluation over 256 values, then grind); model tied by differential correspondence with onet.RequirePublicIP and a numeric-range oracle",
        text="Kernel-checked equivalence between the model of RequirePublicIP (over the CIDR table regenerated from source) and an independent numeric-range specification of the forbidden blocks, for every IPv4/IPv6/mapped/odd-length value; the model is run against the real function on block boundaries and 10^5 addresses per quick run.",
        note="Trusted: Lean kernel, hand model of Go's net.IP predicates (validated differentially), extractor for the CIDR literals; hostname resolution is an oracle; the dial paths are covered by the handler models (C03/C04 engines) and wiring facts.",
    ),
    "C07": dict(
        engine="E2 auth (replay)",
        technique="Lean 4 theorems by induction over Add/Resize histories (invariant `Safe`), model tied by differential correspondence with the real ReplayCache and a sliding-window oracle",
        text="Kernel-checked theorems over all histories of Add/Resize from any cache state (window, no spurious refusals, exactly one winner, capacity bound); the model is run against the real ReplayCache op by op on every check.",
        note="Trusted: Lean kernel, the hand model of replay.go (validated by ~300k differential ops per quick run), extractor for MaxCapacity; Add/Resize atomicity comes from the C19 lock-set facts.",
    ),
}
