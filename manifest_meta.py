HOOK_COMMITS = ["8453496", "fa51c13", "887955e", "5499c55", "db47ff6", "b228aed", "355b9e4", "6156102"]
NOT_APPLICABLE = {}
META = {
    "C20": dict(
        engine="E1 ipinfo + E7 metrics",
        technique="Lean 4 theorems on the classification model (label decided by class alone, in the stated order; database consulted only for global-unicast addresses; one label per address across collectors) and decide over the regenerated metric table (provenance class of every label value, label names, value classes); differential correspondence with GetIPInfoFromAddr/IP and the real collectors; exposition scan; the functions themselves are TRANSLATED from the Go source into Lean on every run (extract/golean.go -> Gen/Code.lean, do-blocks in the Option monad over the run-time prelude Model/GoRT.lean) and proved, for all inputs, never to panic and to do what the hand model does (Proofs/Tie*.lean), so the theorems are re-checked against what the source says now (GetIPInfoFromIP with the database as a parameter)",
        text="Kernel-checked: XA / empty / XL / XD / ZZ / database answer are decided in that order by the class of the address; non-global addresses never reach the database; over the whole generated table no label value derives from a client address or from an unclassifiable expression, label names are the fixed set, values are numeric counts/durations.",
        note="Proof over generated table + model; the provenance analysis (extractor) is trusted and backed by scanning the real exposition for every textual form of distinctive client addresses and ports.",
    ),
    "C09": dict(
        engine="E6 config",
        technique="Lean 4 theorems relating the served table of the load model (plan: legacy ports then services, raw-pair de-duplication) to an independent specification (owner of a listener key, first matching key of the owner's raw list) for every configuration, listener key and client key; validate => distinct listener keys => a service's listener is owned by that service; differential correspondence with the real server process probed by real TCP and UDP clients",
        text="Kernel-checked for all configurations in both formats and their mixture: after a successful load the attributed id on any listener for any client key is firstMatch(ownerKeys) — authenticates iff the owner lists that cipher and secret, first id wins under duplicates and re-spellings, other services' keys do not authenticate unless listed there.",
        note="Trusted: Lean kernel, hand model validated by the config campaign (own, foreign, removed and never-configured keys on up to 5 listeners per step), wiring facts. Crypto key separation is exercised, not modelled.",
    ),
    "C10": dict(
        engine="E6 config",
        technique="Lean 4 theorems on the load/reload model by induction over arbitrary sequences of reload attempts with a fault at any stage (read, validate, cipher of any service, bind at any index): serving table = plan of the last accepted attempt, manager handles = exactly that configuration's, failed attempts restore state and never unbind a serving address at any intermediate step; regenerated wiring facts; differential correspondence with the real loadConfig/runConfig/Stop in a child process (real files, failing binds, client probes, /proc/net, goroutines); the validation stage itself (Config.Validate) is TRANSLATED from the Go source into Lean on every run (extract/golean.go -> Gen/Code.lean) and proved, for all configurations and parser behaviours, never to panic and to accept exactly what the model's validate accepts (Proofs/TieValidate.lean)",
        text="Kernel-checked for every sequence of (configuration, fault) pairs: what serves is the most recent accepted configuration and nothing else; a load succeeds iff no stage fails; a failed load leaves table and handles as they were; a successful one fully replaces both; every reachable state is consistent.",
        note="Trusted: Lean kernel, hand model validated by the config campaign, syntactic wiring facts. YAML parsing and address parsing are parameters.",
    ),
    "C11": dict(
        engine="E6 config",
        technique="Lean 4 theorems on the reload model's full trace of manager states (every acquisition and release): a retained address has >=1 handle at every step, over any number of consecutive reloads; wiring facts (start-new-before-stop-old, Stop closes listeners only, handler context reaches only the dial); differential correspondence: clients hammering retained TCP/UDP addresses during real reloads, relays (idle, mid-transfer, half-closed) opened before the reload run to completion",
        text="Kernel-checked: during a successful (and a failing) reload an address present in both configurations is bound at every intermediate step; both generations accept a key present in both. Observed on the real server: no refused dial, no connection/datagram handled by zero or two generations, no unauthenticated retained client, relays complete.",
        note="Partial for kernel accept-queue behaviour and timing (observed only). Exactly-one delivery among handles is C12.",
    ),
    "C12": dict(
        engine="E5 listeners",
        technique="Lean 4 invariant proofs over a labelled transition system of a shared listener for EVERY event sequence (acquire, arrival, accept/read call, hand-over to a chosen blocked handle, close): conservation (each item in exactly one of queued/delivered/dropped), no double delivery, delivery only to open blocked handles, drops only at the last close, close semantics, closed handles stay closed, socket bound iff a handle is open; refinement check of the real ListenerManager against the model on real sockets with concurrent operations",
        text="Kernel-checked for all interleavings: exactly-once delivery, nothing lost while a handle is open, close unblocks and never disturbs others, every later call on a closed handle fails, last close releases the socket and leaves nothing queued or blocked; hand-over is always possible when an item is queued and a handle is blocked.",
        note="Partial for liveness in real time (the campaign's oracle demands hand-over within 20 ms) and for kernel behaviour (RST/FIN of undelivered connections), observed only. Trusted: Lean kernel, hand model, harness linearisation.",
    ),
    "C18": dict(
        engine="E9 life + E2 udp + E5 listeners",
        technique="Lean 4 theorems that no input reaches a panic effect in the models that make index, slice and buffer arithmetic explicit (address parser on every byte string, validatePacket, client datagrams in any state, target replies of every size within the read buffer), totality of the stream decoder, one-close-per-connection, association and listener resource balance, plus regenerated containment facts (handlers joined and recovered, per-datagram recover, helper goroutine joined); differential/oracle campaign attacking the real server process with hostile clients and targets",
        text="Kernel-checked on the models: no byte string, authenticated plaintext or target reply size produces an out-of-range index or slice; truncated streams are errors; every connection ends with exactly one close; associations added = removed + live; last close releases. Observed on the real process: alive, no recovered panic, still serving, goroutines/fds back to baseline after each batch and after Stop.",
        note="Partial by nature: process-level crash freedom and leak freedom of the real binary are observed by the campaign, not proved; the theorems cover the modelled byte-level paths. Trusted: Lean kernel, hand models (validated by udp/tcp/shared campaigns), wiring extractor.",
    ),
    "C17": dict(
        engine="E7 metrics",
        technique="Lean 4 refinement proof: the tunnel-time bookkeeping model (reference counts, period restart on scrape, report on last close) against an independent per-client specification (time accrues exactly while depth>0), by induction over arbitrary op histories with a non-decreasing clock; differential correspondence with the real Prometheus collectors under a stubbed clock; the functions themselves are TRANSLATED from the Go source into Lean on every run (extract/golean.go -> Gen/Code.lean, do-blocks in the Option monad over the run-time prelude Model/GoRT.lean) and proved, for all inputs, never to panic and to do what the hand model does (Proofs/Tie*.lean), so the theorems are re-checked against what the source says now (tunnelTimeMetrics.startConnection / stopConnection / reportTunnelTime / Collect: pointer-valued map entries with write-back and nil flags, the two counter vectors as an effect log; simulation relation preserved by every operation; the refinement theorem restated over histories of the translated operations)",
        text="Kernel-checked for every history: reported per-key seconds after a scrape = sum over client IPs of the covered time; reported+pending = covered at every point (nothing lost or doubled across scrapes); active iff depth>0 (overlaps counted once); clients that never start contribute zero; per-location sum = per-key sum.",
        note="Trusted: Lean kernel, hand model validated by the metrics campaign, the hook that stubs the clock. Matching of stops to starts rests on C15/C16. Translated code: trusted are the translator and the prelude GoRT (Go maps as association lists — the tie does not depend on iteration order —, Duration.Seconds() kept in nanoseconds).",
    ),
    "C02": dict(
        engine="E3 tcp",
        technique="Lean 4 theorems on the stream framing model for ALL chunkings over an abstract AEAD (decode∘encode, chunking independence, replay of the first 50 bytes, nonce uniqueness, truncation) and on the relay model (target receives exactly the data after the header, then FIN); differential correspondence with the real handler over loopback sockets",
        text="Kernel-checked: for every correct AEAD and every chunking (0..16383-byte chunks, empty ones included) the reader delivers exactly the bytes written then EOF; the 50 bytes consumed by the key search are replayed; the relay model sends the target exactly the plaintext after the address header followed by FIN. The campaign compares byte-for-byte and FIN order at scripted peers.",
        note="Partial for kernel half-close semantics and io.Copy fast paths (splice, ReadFrom/WriteTo selection), observed by the campaign only. Trusted: Lean kernel, hand models, spec-level crypto of the harness.",
    ),
    "C06": dict(
        engine="E3 tcp",
        technique="Lean 4 theorems on the handler model with logical close classes (probe silent, reads everything, close class depends only on whether the client half-closed, post-auth invalid streams closed only after the client's FIN); differential correspondence with the real handler (250-450 ms timeouts, close time from AddClosed, FIN vs RST); drainErrToString is TRANSLATED from the Go source into Lean on every run and proved to yield exactly the three drain results",
        text="Kernel-checked on the handler state machine: a non-authenticating connection writes nothing, dials nothing, is read completely and is closed at the client's FIN or at the deadline regardless of content/length/key list/replay-cache state; authenticated streams that turn invalid are closed only after the client's FIN.",
        note="Partial for FIN-vs-RST and wall-clock timing (kernel), observed with +-150 ms tolerance. Trusted: Lean kernel, hand model validated on ~450 scripted connections per quick run.",
    ),
    "C15": dict(
        engine="E3 tcp",
        technique="Lean 4 total decision table of connection outcomes with their metric calls (`outcome_table`), corollaries by case analysis; model of the counting wrapper metrics.MeasureConn with theorems for every sequence of reads/writes/copies with arbitrary short counts (write counter = bytes the connection accepted, read counter <= bytes delivered), tied by the `mconn` campaign; generated wiring facts (opened once before Handle, AddClosed once after handleConnection); differential correspondence with a per-connection recording TCPConnMetrics and socket-level byte counts; the functions themselves are TRANSLATED from the Go source into Lean on every run (extract/golean.go -> Gen/Code.lean) and proved, for all inputs, never to panic and to do what the hand model does (Proofs/Tie*.lean) (measuredConn.Read / Write / WriteTo / ReadFrom: each adds exactly the count the underlying operation reported to exactly one counter)",
        text="Kernel-checked: closed exactly once and last; authenticated reported at most once and iff authentication succeeded; probe reported iff it failed, with the bytes received; counters equal the bytes that crossed for relayed connections and never exceed the bytes sent otherwise.",
        note="Conditional on C18 (a handler panic would skip AddClosed). Trusted: Lean kernel, hand model, extractor wiring facts.",
    ),
    "C13": dict(
        engine="E8 lock facts + E5 listeners",
        technique="Lean 4 theorem (ranked lock acquisition never deadlocks, any number of threads) instantiated with lock-order edges regenerated from the source by a typed interprocedural analysis (closures in onCloseFunc fields, interface calls); acyclicity by decide over the generated graph; stress on the real manager as failing-input search",
        text="Kernel-checked: every nested acquisition in the generated lock-order graph goes strictly up a fixed rank, no channel operation happens under a lock, hence no deadlock for any interleaving of listen/close calls and all locks are free afterwards.",
        note="Proof over generated facts: the extractor (extract/locks.go) is trusted; cross-checked by the lockstress campaign (12 goroutines, ~10^6 listen/close ops, watchdog + goroutine-dump analysis).",
    ),
    "C19": dict(
        engine="E8 lock facts",
        technique="Lean 4 decide over the regenerated table of all field accesses of the shared structures (locks held through helper calls, critical-section ordinals, pre-publication): guards held, immutables never written, each operation one critical section; race detector + concurrent oracles as failing-input search",
        text="Kernel-checked over the whole generated access table: every shared mutable field of the key list, replay history, association table, shared listeners and tunnel-time collector is accessed only under its guard (exclusive for writes), lock-free reads only touch never-written fields, and each operation is one critical section (results equal the sequential order of acquisition).",
        note="Proof over generated facts; extractor trusted. Two documented exemptions (manager on-close closure under managed Close; packet reader goroutine started after write-once fields) are justified by generated wiring facts. The Go memory model is the contract.",
    ),
    "C01": dict(
        engine="E2 auth + E3 tcp",
        technique="Lean 4 theorems: snapshot is a permutation, first-match lookup sound and complete, (id,key) multiset invariant over all histories of lookups/marks/updates by induction, authenticator attribution/completeness; tied by differential correspondence with the real authenticator (status, id, snapshot index); the functions themselves are TRANSLATED from the Go source into Lean on every run (extract/golean.go -> Gen/Code.lean) and proved, for all inputs, never to panic and to do what the hand model does (Proofs/Tie*.lean) (matchesIP, SnapshotForClientIP incl. both index-filling passes, MarkUsedByClientIP, Update, findEntry; container/list is the prelude's)",
        text="Kernel-checked for every key list, client IP, MRU history and interleaving of list operations: the key search fails iff no configured key opens the header, returns a configured entry whose key opens it, never loses or duplicates keys; the authenticator attributes to that entry's id and answers ERR_CIPHER with no side effect otherwise.",
        note="Trusted: Lean kernel, hand models validated on ~10k authentications per quick run incl. 40-240-key mixed-cipher lists; AEAD strength (KeySeparation) is an explicit hypothesis.",
    ),
    "C08": dict(
        engine="E2 auth + E3 tcp",
        technique="Lean 4 theorems for every HMAC function (own salt recognised, injective in the random prefix, marked iff salt >= 20 over the generated cipher table, reflected handshake refused for every cache state); generated wiring facts; differential correspondence with server-marked salts built by an independent HMAC implementation; the functions themselves are TRANSLATED from the Go source into Lean on every run (extract/golean.go -> Gen/Code.lean) and proved, for all inputs, never to panic and to do what the hand model does (Proofs/Tie*.lean) (serverSaltGenerator.splitSalt / IsServerSalt, HMAC a parameter)",
        text="Kernel-checked: issued salts are recognised, the reflected-replay refusal does not depend on the replay cache (disabled or nil included) and precedes it; which ciphers are marked is decided over the regenerated table; wiring facts tie the response writer to the matched entry's generator.",
        note="Freshness itself is probabilistic (RNG contract): pairwise distinctness of real response salts is checked empirically by the tcp campaign. Trusted: Lean kernel, hand model, extractor.",
    ),
    "C04": dict(
        engine="E4 udp",
        technique="Lean 4 invariant (NatInv) proved by induction over all histories of the NAT-table model (unbounded clients and steps); model tied by differential correspondence with the real packet handler",
        text="Kernel-checked for every reachable state: one association per client address, one socket per association, fresh never-reused socket identities, live sockets not closed; forwarded datagrams of a known client leave from its socket; a reply read on a socket goes only to its owner; associations are created only by authenticated datagrams with a validated destination.",
        note="Trusted: Lean kernel; hand model validated differentially (source ports observed at real targets, bijection built on the fly); kernel port uniqueness is a contract.",
    ),
    "C14": dict(
        engine="E4 udp + natconn",
        technique="Lean 4 invariants over write/read histories with a logical clock (J: socket deadline in sync or expired; A: fast-close latch), generated 17 s / port 53 constants; tied by differential correspondence with the real natconn over a recording PacketConn and the real handler; the functions themselves are TRANSLATED from the Go source into Lean on every run (extract/golean.go -> Gen/Code.lean, do-blocks in the Option monad over the run-time prelude Model/GoRT.lean) and proved, for all inputs, never to panic and to do what the hand model does (Proofs/Tie*.lean), so the theorems are re-checked against what the source says now (natconn.onWrite / onRead: SetReadDeadline calls as an effect log, time.Now and isDNS as parameters; simulation relation with the model's ghost counters)",
        text="Kernel-checked: every client datagram handled on a live or new association leaves the socket deadline >= now+timeout (non-DNS) / now+17 s (DNS) for any configured timeout; client datagrams never move the deadline earlier; fast close fires iff the latch is armed and the response is from the DNS port, the latch being armed only after at most one DNS query; removal reported exactly once, socket closed, entry removed.",
        note="Partial for real time: 'within bounded time' and 'promptly' are observed by the campaigns (shutdown expires all associations, fast close within 1.5 s), not proved. Trusted: Lean kernel, hand models, verif hook file. Translated code: trusted are the translator and the prelude GoRT (time as integer nanoseconds, sync.Once as a flag).",
    ),
    "C16": dict(
        engine="E4 udp",
        technique="Lean 4 theorems on the effect traces of the UDP model (exhaustive case characterisation `upstream_cases`, counting invariant added = removed + live by induction over histories); differential correspondence on metric calls with the real handler; socket-level byte sums as oracle",
        text="Kernel-checked: a client datagram is reported exactly once iff it creates or arrives on an association, with wire size and the payload size actually written (OK iff written); associations are added with the id of an entry whose key opened the datagram; target datagrams reported once; over every history added = removed + live.",
        note="Handler side proved; the Prometheus collector side (counter vectors) is covered by the metrics engine. Trusted: Lean kernel, hand model validated differentially.",
    ),
    "C03": dict(
        engine="E4 udp",
        technique="Lean 4 theorems on the packet-handler model (decision logic of Handle/validatePacket, in-place buffer arithmetic of timedCopy by omega); model tied by differential correspondence with the real handler over real sockets; the UDP key search findAccessKeyUDP is TRANSLATED from the Go source into Lean on every run (extract/golean.go) and proved, for every snapshot, to return the first entry whose key opens the datagram and to mark exactly that entry (Proofs/TieMisc.lean)",
        text="Kernel-checked: forwarding implies authentication under a configured key (new client) or the association's key (known client), payload = plaintext after the header, search completeness for any list order, no effects without a key, reply layout salt‖seal(assoc key, true source ‖ body), truncated reads never relayed. The model is compared effect by effect with the real handler on ~2.5k datagram ops per quick run.",
        note="Trusted: Lean kernel; hand model validated differentially; spec-level crypto in the harness; AEAD strength and RNG freshness are contracts (salt freshness is checked empirically pairwise).",
    ),
    "C05": dict(
        engine="E1 bytes/addr (ip)",
        technique="Lean 4 theorems over all 4-byte, IPv4-mapped and 16-byte values (byte-mask lemmas by kernel evaluation over 256 values, then grind); model tied by differential correspondence with onet.RequirePublicIP and a numeric-range oracle; the functions themselves are TRANSLATED from the Go source into Lean on every run (extract/golean.go -> Gen/Code.lean, do-blocks in the Option monad over the run-time prelude Model/GoRT.lean) and proved, for all inputs, never to panic and to do what the hand model does (Proofs/Tie*.lean), so the theorems are re-checked against what the source says now (RequirePublicIP, IsPrivateAddress over the generated CIDR table; the net.IP predicates IsGlobalUnicast / IPNet.Contains are the prelude's model of the standard library)",
        text="Kernel-checked equivalence between the model of RequirePublicIP (over the CIDR table regenerated from source) and an independent numeric-range specification of the forbidden blocks, for every IPv4/IPv6/mapped/odd-length value; the model is run against the real function on block boundaries and 10^5 addresses per quick run.",
        note="Trusted: Lean kernel, hand model of Go's net.IP predicates (validated differentially), extractor for the CIDR literals; hostname resolution is an oracle; the dial paths are covered by the handler models (C03/C04 engines) and wiring facts.",
    ),
    "C07": dict(
        engine="E2 auth (replay)",
        technique="Lean 4 theorems by induction over Add/Resize histories (invariant `Safe`), model tied by differential correspondence with the real ReplayCache and a sliding-window oracle; the functions themselves are TRANSLATED from the Go source into Lean on every run (extract/golean.go -> Gen/Code.lean, do-blocks in the Option monad over the run-time prelude Model/GoRT.lean) and proved, for all inputs, never to panic and to do what the hand model does (Proofs/Tie*.lean), so the theorems are re-checked against what the source says now (preHash incl. both loops, ReplayCache.Add, Resize, NewReplayCache; window theorem restated over runs of the translated Add)",
        text="Kernel-checked theorems over all histories of Add/Resize from any cache state (window, no spurious refusals, exactly one winner, capacity bound); the model is run against the real ReplayCache op by op on every check.",
        note="Trusted: Lean kernel, the hand model of replay.go (validated by ~300k differential ops per quick run), extractor for MaxCapacity; Add/Resize atomicity comes from the C19 lock-set facts. Translated code: trusted are the translator (extract/golean.go) and the prelude GoRT (Go maps as association lists, checked indexing).",
    ),
}
