HOOK_COMMITS = []
NOT_APPLICABLE = {}
META = {
    "C07": dict(
        engine="E2 auth (replay)",
        technique="Lean 4 theorems by induction over Add/Resize histories (invariant `Safe`), model tied by differential correspondence with the real ReplayCache and a sliding-window oracle",
        text="Kernel-checked theorems over all histories of Add/Resize from any cache state (window, no spurious refusals, exactly one winner, capacity bound); the model is run against the real ReplayCache op by op on every check.",
        note="Trusted: Lean kernel, the hand model of replay.go (validated by ~300k differential ops per quick run), extractor for MaxCapacity; Add/Resize atomicity comes from the C19 lock-set facts.",
    ),
}
